#!/bin/sh
# setup_cmd: build the simulator, simdo and the LD_PRELOAD shim from files on disk (offline).
set -e
cd "$(dirname "$0")"
export CARGO_NET_OFFLINE=true
mkdir -p target
clang -O2 -fPIC -shared -Wno-pointer-bool-conversion -o target/psim_shim.so psim/shim/psim_shim.c -ldl
(cd psim && cargo build --offline --release 2>&1 | tail -3)
# build the system under test once so that the first check does not pay for it
# (runs against a scratch copy, PSIM_REPO, build into their own directory later)
if [ -z "$PSIM_REPO" ]; then
  CARGO_TARGET_DIR="${PSIM_VERIF:-/verif}/target/sut" cargo build --offline --bin redo --manifest-path /repo/Cargo.toml 2>&1 | tail -2
fi
echo setup done

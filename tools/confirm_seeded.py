#!/usr/bin/env python3
"""Confirm the seeded property-breaking changes kept under /verif/seeded/<id>/
against /repo's current HEAD and record which checks catch them.

For every directory with a patch.diff (or only those named on the command line):
  1. fresh scratch worktree of /repo HEAD under /tmp/mv/<id>, `git apply patch.diff`;
  2. `cargo test --workspace --no-fail-fast --offline` there (must pass);
  3. demo.sh against the unchanged binary (/verif/target/sutbin/redo, must exit 0)
     and against the changed one (must exit non-zero);
  4. the checks listed in meta.json["checks"] (default: the broken property) at the
     quick tier against the changed binary (PSIM_REPO + PSIM_SUT_BIN);
  5. results go to meta.json["confirmed"]; the worktree and its build output are removed.

usage: confirm_seeded.py [--tier quick|thorough] [--no-tests] [id ...]
"""
import json, os, re, shutil, subprocess, sys, time

SEEDED = "/verif/seeded"


def sh(cmd, **kw):
    return subprocess.run(cmd, shell=True, text=True, capture_output=True, **kw)


def main():
    args = sys.argv[1:]
    tier = "quick"
    if "--tier" in args:
        i = args.index("--tier")
        tier = args[i + 1]
        del args[i : i + 2]
    no_tests = "--no-tests" in args
    args = [a for a in args if not a.startswith("--")]
    ids = args or sorted(
        d for d in os.listdir(SEEDED) if os.path.exists(f"{SEEDED}/{d}/patch.diff")
    )
    head = sh("git -C /repo rev-parse --short HEAD").stdout.strip()
    os.makedirs("/tmp/mv", exist_ok=True)
    for mid in ids:
        d = f"{SEEDED}/{mid}"
        meta = json.load(open(f"{d}/meta.json"))
        wt = f"/tmp/mv/{mid}"
        sh(f"git -C /repo worktree remove --force {wt}")
        r = sh(f"git -C /repo worktree add --detach {wt} HEAD")
        if r.returncode:
            print(mid, "worktree failed", r.stderr)
            continue
        res = {"repo_head": head, "tier": tier, "at": time.strftime("%Y-%m-%dT%H:%M:%SZ", time.gmtime())}
        r = sh(f"git -C {wt} apply {d}/patch.diff")
        res["patch_applies"] = r.returncode == 0
        if r.returncode:
            print(mid, "PATCH DOES NOT APPLY", r.stderr[-300:])
            meta["confirmed"] = res
            json.dump(meta, open(f"{d}/meta.json", "w"), indent=1)
            sh(f"git -C /repo worktree remove --force {wt}")
            continue
        env = f"CARGO_NET_OFFLINE=true CARGO_TARGET_DIR={wt}/target"
        if no_tests:
            r = sh(f"cd {wt} && {env} cargo build --offline --bin redo")
            res["build_ok"] = r.returncode == 0
            # keep the last full test-suite result, with the HEAD it was obtained on
            prev = meta.get("confirmed", {})
            if "test_suite" in prev:
                res["test_suite"] = dict(prev["test_suite"], at_repo_head=prev["test_suite"].get("at_repo_head", prev.get("repo_head")))
        else:
            r = sh(f"cd {wt} && {env} cargo test --workspace --no-fail-fast --offline")
            passed = sum(int(x) for x in re.findall(r"^test result: .*? (\d+) passed", r.stdout, re.M))
            failed = sum(int(x) for x in re.findall(r"^test result: .*? (\d+) failed", r.stdout, re.M))
            res["test_suite"] = {"exit": r.returncode, "passed": passed, "failed": failed}
        binp = f"{wt}/target/debug/redo"
        d0 = sh(f"timeout 900 sh {d}/demo.sh /verif/target/sutbin/redo")
        d1 = sh(f"timeout 900 sh {d}/demo.sh {binp}")
        res["demo"] = {"unchanged_exit": d0.returncode, "changed_exit": d1.returncode}
        res["checks"] = {}
        for p in meta.get("checks") or [meta["property"]]:
            t0 = time.time()
            r = sh(f"PSIM_SUT_TAG=cs-{mid} PSIM_REPO={wt} PSIM_SUT_BIN={binp} /verif/check {p} --tier {tier}", cwd="/verif")
            kinds = sorted(set(re.findall(r"^violation kind=(\S+)", r.stdout, re.M)))
            res["checks"][p] = {
                "exit": r.returncode,
                "caught": r.returncode == 1 and "VIOLATION" in r.stdout,
                "kinds": kinds,
                "wall_s": round(time.time() - t0, 1),
            }
        meta["confirmed"] = res
        json.dump(meta, open(f"{d}/meta.json", "w"), indent=1)
        print(mid, json.dumps(res)[:600], flush=True)
        sh(f"git -C /repo worktree remove --force {wt}")
        shutil.rmtree(f"/verif/target/sut-cs-{mid}bin", ignore_errors=True)


if __name__ == "__main__":
    main()

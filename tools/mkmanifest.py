#!/usr/bin/env python3
"""Regenerate /verif/MANIFEST.json from the table below."""
import json, os
here = os.path.dirname(os.path.dirname(os.path.abspath(__file__)))
props = [json.loads(l) for l in open(os.path.join(here, 'properties.jsonl'))]

# id -> (level category, level text, level note)
CLAIMED = {
 'C01': ('exploration', 'seeded search over graphs, edit/build histories (its own and those of the C02/C03/C13/C14/C17 generators) and process schedules of the real redo tree; every successful build command is compared with a from-scratch evaluator', 'oracle = small DSL evaluator; scripts are simdo programs whose output is a pure function of rule and dependency contents; flags are declared dependencies'),
 'C02': ('exploration', 'seeded search over histories (edits, dropped dependencies, rule shadowing, removals, repeats) and schedules; the scripts run by each command are compared with the must/may/must-not sets of the SeenModel reference', 'reference model written from the property text (what each target consumed at its last successful build vs what those inputs are now); may-run zone = plain dependency rebuilt to identical bytes'),
 'C03': ('exploration', 'seeded search over checksummed chains of depth 1-3 with noise, always and removal histories on the direct and the out-of-band path; SeenModel must/may sets plus from-scratch freshness', 'stamp masks are not generated (a mask that hides bytes dependents read contradicts C01 by construction)'),
 'C04': ('fault_enumeration', 'the finite cross product 12 script behaviours (incl. a dangling-symlink $3 and a directory $3) x 6 output sizes x 3 prior states (216 cells) is enumerated completely, every cell under several seeded schedules, half of them with the script killed at a walked yield, a third with a stale temp file left by a killed run; per-step watcher of every state of the target a reader can see', 'a script that writes $1 itself changes the target by its own doing; redo is only held to status 206 and to not touching it further'),
 'C05': ('exploration', 'seeded search over failing subsets, command-line orders, -k/-j and schedules across fail/repeat/repair histories', 'failure cone computed by the from-scratch evaluator; flags are declared dependencies'),
 'C06': ('exploration', 'seeded search over 2-4 concurrent invocations on fresh and on previously built projects, late starters, kills of one process or of a command\'s process group (crash plans and timed aborts), invocations that end with an internal error while their jobs run, invocations whose output reader goes away (cmd | head); trace invariants over the totally ordered event log', "lock byte of a job inferred from the builder's own fcntl calls at the libc seam; the orphan of a SIGKILLed builder is a known finding"),
 'C07': ('exploration', 'seeded search over -j, --shuffle, script durations and schedules; differential against the serial -j1 replay of the same history plus the from-scratch evaluator', 'structural DB comparison ignores run ids and stamps'),
 'C08': ('exploration', 'seeded search with select-stall faults and wake-up plans (one chosen wake-up held back per follow-up run); token pipe fill and working scripts observed at every scheduling step; own and inherited (make-style) jobserver; success, script failure and internal-error exits; a nested `redo -j1` below a parallel build keeps its subtree serial', 'allows +1 per live redo-log follower as the property states'),
 'C09': ('exploration', 'seeded search over interleavings of child exits, token arrivals, timers and lock hand-overs, including jobs that run for minutes of simulated time, waiters that rebuild after a lock wait, and wake-up plans (the k-th ready select/poll wake-up of the recorded run held back until nothing else can run, for sampled k); exact deadlock detection (all parked, none enabled, no deadline)', 'panic detection by exit status 101/SIGABRT and stderr text'),
 'C10': ('fault_enumeration', 'per scenario every state-changing libc call of every redo process in a recorded schedule is a crash point; all of them are enumerated with kill-process and kill-process-group, plus 32 timed group aborts per scenario spread over the recorded run (scripts running, redo waiting), each followed by recovery, edit and rebuild (with and without log capture)', 'process kills only (no power loss: synchronous=off promises nothing there); SQLite page atomicity under kill is trusted; the rename window of a first build is recorded as a known finding'),
 'C11': ('exploration', 'seeded search over role-change histories (hand edits that change size and content, or one byte only right after the build; file times are simulated; a generated rule that the user edits, uses and removes); trace invariant on every rename/unlink/open/truncate issued by redo processes plus inode+bytes comparison of user-owned files around every command', 'scripts in these scenarios never touch user files themselves'),
 'C12': ('exploration', 'seeded search over cycle shapes (plain and checksummed nodes, prefixes, tangled graphs), entry points, -j and schedules; exact deadlock detection', 'cycle identified by status 208 or the error text; a cycle entered at two nodes in parallel is a known finding, recognised by who holds which lock'),
 'C13': ('exploration', 'seeded search over names, depths, candidate placements (also for a target outside the base directory, with rules two levels above it and decoys beside it) and add/remove histories; independent reference enumeration of candidates; script arguments taken from the running script', 'the candidate list as a pure function is compared on generated paths only (pure-function clause is outside simulation)'),
 'C14': ('exploration', 'seeded search over ifcreate/always/ifchange mixes and create/delete histories at -j1..4; SeenModel sets, exactly-once for always-targets', 'ifcreate idiom = ifchange when the path exists else ifcreate'),
 'C15': ('exploration', 'seeded search over spellings (relative, ./, .., //, absolute, via symlinked directory), working directories, duplicates on one command line, -j, targets that are themselves symlinks to directories; one database row, one build per real file', 'the second sentence of C15 (lexical cleaning exhaustively over byte strings) is a pure function and is not claimed by this technique'),
 'C16': ('exploration', 'seeded search over 2-6 simultaneous commands including first-ever ones and commands with REDO preset in their environment; every SQLite lock/write call is a scheduling point, busy handler runs on simulated time', "stall/starvation windows are bounded far below SQLite's 60 s busy timeout"),
 'C17': ('exploration', 'seeded search over histories with queries inserted; SeenModel lower/upper bounds for redo-ood (a hand-edited target is never out of date; what the recovery after a killed build rebuilds was listed), partition and cover check for redo-targets/redo-sources, paired replay without the queries (stable per-command seeds)', 'outcomes (scripts run, status, files, structural DB) are compared, not raw traces'),
 'C18': ('exploration', 'seeded search over interleavings of stderr writers (whole, partial, multi-piece, long lines; targets rebuilt within a session, targets spread over a sub-directory and asked for through ../ names, a script terminated by a signal) with the redo-log follower (reads, sleeps, lock probes are scheduling points); per-target line sequences in the live raw output and in a later redo-log replay', 'the record format/parse round trip for arbitrary field values is a pure function and is not claimed by this technique'),
}
TODO_REASON = 'check not built yet in this round (planned, see DESIGN.md section 6); not claimed until it runs clean'

m = {
 "version": 1,
 "setup_cmd": "./setup.sh",
 "hooks": {
  "guard": "none (libc seam via LD_PRELOAD shim; /repo is built unmodified, no hook commits)",
  "enable": "cargo build --offline --manifest-path /repo/Cargo.toml (plain dev build); checks run the binary under LD_PRELOAD=/verif/target/psim_shim.so",
  "baseline_off_cmd": "cd /repo && cargo test --workspace --no-fail-fast --offline",
  "source_commits": [],
  "add_only": True,
 },
 "engines": [{
  "name": "psim",
  "path": "psim/",
  "serves_properties": sorted(CLAIMED),
  "kind_free_text": "deterministic process-level simulator: the real redo process tree runs under an LD_PRELOAD libc shim; a seeded single-threaded scheduler releases one parked process at a time, owns clocks/timers/file times/randomness, injects kills of a process or a process group (before a chosen call, or at a chosen step), stalls (drawn, or placed at a chosen wake-up), vanishing output readers and EINTR, and records a replayable decision list",
 }],
 "checks": [],
 "not_applicable": [],
 "notes": "Every check: ./check <ID> --tier quick|thorough; exit 0 held, 1 VIOLATION (replay file), 2 harness error. VERIF_SEED honoured. Repaired defects (fixed: lines) and known findings (JSON lines) are in known_findings.txt; genuine defects of /repo were repaired in 28 unguarded `fix:` commits; no hook commits exist (hooks.source_commits is empty).",
}
for p in props:
    i = p['id']
    if i in CLAIMED:
        cat, text, note = CLAIMED[i]
        m['checks'].append({
            "property_id": i,
            "quick_cmd": f"./check {i} --tier quick",
            "thorough_cmd": f"./check {i} --tier thorough",
            "evidence_file": f"evidence/{i}.json",
            "replay_cmd_template": f"./check {i} --replay {{path}}",
            "engine": "psim",
            "level_claimed": {"category": cat, "text": text + "; a clean batch is evidence, not proof", "design_ref": f"DESIGN.md section 6 ({i})"},
            "level_note": note + "; trusts the shim's call classification, the kernel, SQLite's commit atomicity",
            "technique": "deterministic simulation with fault injection (seeded scheduler over the real process tree at the libc seam)",
        })
    else:
        m['not_applicable'].append({"property_id": i, "reason": TODO_REASON})
json.dump(m, open(os.path.join(here, 'MANIFEST.json'), 'w'), indent=1)
print('claimed', sorted(CLAIMED), 'unclaimed', [x['property_id'] for x in m['not_applicable']])

#!/bin/sh
# multiseed.sh <seed>... : run every quick check with other VERIF_SEED values from a frozen
# copy of the simulator binaries (so that rebuilding /verif/target meanwhile does not disturb it).
# Evidence goes to /dev/shm/multiseed-evidence; one line per (seed, check) on stdout.
F=/dev/shm/frozen-psim; rm -rf $F; mkdir -p $F
cp /verif/target/psim/release/psim-check /verif/target/psim/release/simdo $F/
for seed in "$@"; do
  for i in 01 02 03 04 05 06 07 08 09 10 11 12 13 14 15 16 17 18; do
    s=$(date +%s)
    VERIF_SEED=$seed PSIM_EVIDENCE_DIR=/dev/shm/multiseed-evidence $F/psim-check C$i --tier ${TIER:-quick} > /dev/shm/ms${seed}_C$i.log 2>&1; rc=$?
    e=$(date +%s)
    echo "seed=$seed C$i rc=$rc t=$((e-s))s $(grep -E '^C[0-9]+ (quick|thorough)' /dev/shm/ms${seed}_C$i.log | cut -c1-140)"
    grep -E '^violation|^HARNESS' /dev/shm/ms${seed}_C$i.log | cut -c1-300
  done
done

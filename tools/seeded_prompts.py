#!/usr/bin/env python3
"""Write the instructions for a round of independent property-breaking changes.

usage: seeded_prompts.py <scratch-dir> <property-id>...
For every property id a file <scratch-dir>/<id><letter>.prompt.txt is written (letter = next free
one under /verif/seeded).  The text contains the property (from properties.jsonl) and one-sentence
summaries of the changes earlier rounds produced for it -- nothing else from /verif.  The caller
creates the scratch worktree <scratch-dir>/<id><letter> (git -C /repo worktree add --detach) and
hands the file to a fresh sub-agent.
"""
import glob, json, os, sys

GENERIC = """You are helping to evaluate a verification tool for the Rust project zombiezen/redo-rs (a port of apenwarr's redo build system: SQLite-backed dependency state, fcntl target locks, GNU-make-compatible jobserver).  Your job is to play the role of a plausible but wrong code change.

WORKSPACE.  You have your own scratch git worktree of the project at {wt} (detached HEAD = the project's current state).  Work ONLY inside {wt} and write your results to {out}/ (create it).  Never read or touch /repo or /verif.  There is no network; build with
    cd {wt} && CARGO_NET_OFFLINE=true CARGO_TARGET_DIR={wt}/target cargo build --offline
(the target directory is pre-populated, so builds are incremental), and run the test suite with
    cd {wt} && CARGO_NET_OFFLINE=true CARGO_TARGET_DIR={wt}/target cargo test --workspace --no-fail-fast --offline
The built binary is {wt}/target/debug/redo; the other commands (redo-ifchange, redo-ifcreate, redo-always, redo-stamp, redo-ood, redo-targets, redo-sources, redo-log, redo-whichdo, redo-unlocked) are the same binary reached through symlinks named like that (make a bin directory with the symlinks and put it first in PATH).  Before you change anything, build once and copy the unchanged binary to {out}/redo.orig.

THE PROPERTY your change must break (this is all you are told about what the verification tool checks):

  {pid}: {title}
  {statement}
  Quantified: {quant}
  Relevant code: {files}

WHAT TO PRODUCE.  A change to the project's Rust sources (src/**) that
  1. still compiles without new warnings and passes the whole existing test suite (cargo test as above, all tests incl. the `integration_test` that runs the t/ directory; ~72 tests + doc tests) -- run it and report the counts;
  2. breaks the property above for real users, but only when something SPECIFIC happens: a particular interleaving of processes, a crash/kill at a particular point, a multi-step sequence of commands and edits, an unusual input or graph shape, or two cooperating code sites that each look fine alone.  NOT something ordinary use would expose at once (the first `redo` of a hello-world project must still work, and so must the t/ suite);
  3. looks like a change a maintainer could plausibly make (a refactoring, an 'optimisation', a simplification, a well-meant fix) -- small, a few lines to a few dozen;
  4. is different from these earlier changes that others already wrote for this property (choose another mechanism / code site):
{earlier}
  {hint}
  Read the code first (start with README.md, src/lib.rs, then the files listed above) and pick a site where the property's guarantee really rests.

DEMONSTRATION.  Write {out}/demo.sh: a POSIX sh script that takes the path of a redo binary as $1, creates a fresh temporary project directory (mktemp -d), sets up the bin directory with the symlinks, runs a scenario and exits 0 if the property held and non-zero if it was violated (print what went wrong).  It must exit 0 with {out}/redo.orig and non-zero with your changed binary, reliably (run each at least 5 times and report how often it fails/passes; if the breakage needs a race, make the demo create the race reliably, e.g. with sleeps in .do scripts, retries in a loop, or kill at a controlled point).  The demo must clean up its temporary directory and must not leave processes behind.  Keep its run time under a few minutes.

DELIVERABLES in {out}/:
  patch.diff    -- `git -C {wt} diff` of your change (must apply with `git apply` to a pristine checkout)
  demo.sh       -- as above
  summary.json  -- {{"property": "{pid}", "summary": "<what was changed and why it looks innocent>", "needs": "<what exactly has to happen for the breakage to manifest, and what the user then sees>", "agent_ran": ["<command> -> <result>", ...], "demo_reliability": "<n/m fail on changed, n/m pass on unchanged>"}}
Leave the change applied in {wt} when you finish (do not commit).  In your final message give a 5-line summary: the change, what it needs to manifest, test-suite counts, demo results.
"""

HINT = ("Prefer a change whose manifestation depends on the environment or the way the tool is used rather than only on the "
        "dependency graph: directory layout (targets or .do files in other directories, names with ../, nested projects), "
        "symbolic links, signals and process groups, exits caused by something other than a build script, file timestamps and "
        "sizes, unusual but legal script behaviour, volume of output, environment variables, the order and timing of "
        "several commands.")


def main():
    scratch = sys.argv[1]
    ids = sys.argv[2:]
    props = {json.loads(l)['id']: json.loads(l) for l in open('/verif/properties.jsonl')}
    prev, nxt = {}, {}
    for d in sorted(glob.glob('/verif/seeded/C*/meta.json')):
        m = json.load(open(d))
        prev.setdefault(m['property'], []).append(m['summary'].split('. ')[0][:300])
        mid = os.path.basename(os.path.dirname(d))
        nxt[m['property']] = chr(ord(mid[-1]) + 1)
    os.makedirs(scratch, exist_ok=True)
    for pid in ids:
        p = props[pid]
        mid = pid + nxt.get(pid, 'a')
        wt, out = f'{scratch}/{mid}', f'{scratch}/{mid}.out'
        earlier = '\n'.join('       - ' + s for s in prev.get(pid, [])) or '       (none)'
        txt = GENERIC.format(wt=wt, out=out, pid=pid, title=p['title'], statement=p['statement'],
                             quant=p['quantifier']['text'], files=', '.join(p['anchors']['files']),
                             earlier=earlier, hint=HINT)
        open(f'{scratch}/{mid}.prompt.txt', 'w').write(txt)
        print(mid)


if __name__ == '__main__':
    main()

#!/usr/bin/env python3
"""Sensitivity on the real history: revert each `fix:` commit of /repo in a
scratch worktree and run the check(s) that found the defect against that tree
(PSIM_REPO).  Every reverted tree is a genuine, once-shipped defect that
compiles and passes the test suite, so each check must raise a VIOLATION on it.

usage: revert_sensitivity.py [--tier quick|thorough] [commit ...]
Writes /verif/seeded/reverts.json and keeps one replay per (commit, property)
under /verif/replays/kept/.  Scratch worktrees live under /tmp/rv and are
removed together with their build output.
"""
import json, os, re, shutil, subprocess, sys, time

FIXES = [
    ("a96a7df", ["C09"]),
    ("887bda0", ["C09", "C15"]),
    ("a47e55d", ["C09"]),
    ("e963a7d", ["C09"]),
    ("9231fca", ["C09"]),
    ("6c42521", ["C16"]),
    ("260b647", ["C16"]),
    ("578747a", ["C01", "C03"]),
    ("616ceba", ["C12"]),
    ("00cee6e", ["C07"]),
    ("c35ab7b", ["C05", "C06"]),
    ("17b7dbc", ["C08"]),
    ("b6ec430", ["C10"]),
    ("c10bfba", ["C10"]),
    ("c734d7a", ["C02", "C03"]),
]


def sh(cmd, **kw):
    return subprocess.run(cmd, shell=True, text=True, capture_output=True, **kw)


def main():
    args = sys.argv[1:]
    tier = "quick"
    if "--tier" in args:
        i = args.index("--tier")
        tier = args[i + 1]
        del args[i : i + 2]
    want = set(args)
    out_path = "/verif/seeded/reverts.json"
    os.makedirs("/verif/seeded", exist_ok=True)
    os.makedirs("/verif/replays/kept", exist_ok=True)
    try:
        table = json.load(open(out_path))
    except Exception:
        table = {}
    for commit, props in FIXES:
        if want and commit not in want:
            continue
        wt = f"/tmp/rv/{commit}"
        sh(f"git -C /repo worktree remove --force {wt}")
        os.makedirs("/tmp/rv", exist_ok=True)
        r = sh(f"git -C /repo worktree add --detach {wt} HEAD")
        if r.returncode:
            print("worktree failed", r.stderr)
            continue
        r = sh(f"git -C {wt} revert --no-commit {commit}")
        if r.returncode:
            print(f"{commit}: revert does not apply cleanly: {r.stdout[-300:]} {r.stderr[-300:]}")
            table[commit] = {"revert": "conflict"}
            sh(f"git -C /repo worktree remove --force {wt}")
            continue
        subj = sh(f"git -C /repo log -1 --format=%s {commit}").stdout.strip()
        entry = {"subject": subj, "tier": tier, "checks": {}}
        for p in props:
            t0 = time.time()
            r = sh(f"PSIM_SUT_TAG=rv-{commit} PSIM_REPO={wt} /verif/check {p} --tier {tier}", cwd="/verif")
            dt = time.time() - t0
            viol = re.findall(r"^VIOLATION property=(\S+) replay=(\S+)", r.stdout, re.M)
            kinds = re.findall(r"^violation kind=(\S+)", r.stdout, re.M)
            kept = []
            for _, path in viol[:2]:
                dst = f"/verif/replays/kept/revert-{commit}-{p}-{os.path.basename(path)}"
                try:
                    shutil.copy(path, dst)
                    kept.append(os.path.relpath(dst, "/verif"))
                except Exception as e:
                    print("copy failed", e)
            entry["checks"][p] = {
                "exit": r.returncode,
                "caught": r.returncode == 1 and bool(viol),
                "kinds": kinds,
                "replays": kept,
                "wall_s": round(dt, 1),
            }
            print(f"{commit} {p}: exit={r.returncode} kinds={kinds} {dt:.0f}s", flush=True)
            if r.returncode == 2:
                print(r.stdout[-1500:])
        table[commit] = entry
        json.dump(table, open(out_path, "w"), indent=1, sort_keys=True)
        # remove the scratch worktree and the build output of that tree
        sh(f"git -C /repo worktree remove --force {wt}")
        for d in (f"sut-rv-{commit}", f"sut-rv-{commit}bin"):
            shutil.rmtree(os.path.join("/verif/target", d), ignore_errors=True)
    print("done")


if __name__ == "__main__":
    main()

#!/bin/sh
# try_mutation.sh <name> <worktree-with-change-applied> <outdir> <prop> [more props...]
# Confirms a candidate property-breaking change held in a scratch worktree of /repo
# (the worktree must differ from /repo's HEAD exactly by <outdir>/patch.diff):
#   1. the patch is what the worktree contains, it builds, and the test suite passes;
#   2. the demonstration fails with the change and passes on the unchanged tree;
#   3. runs the listed checks against the changed binary (PSIM_REPO + PSIM_SUT_BIN), quick tier.
# Prints one summary line per step; logs and replay files go to /dev/shm/mut-<name>/.
name=$1; wt=$2; out=$3; shift 3
log=/dev/shm/mut-$name; mkdir -p $log
export CARGO_NET_OFFLINE=true
[ "$(git -C $wt rev-parse HEAD)" = "$(git -C /repo rev-parse HEAD)" ] || { echo "$name: worktree is not at /repo HEAD"; exit 2; }
git -C $wt diff > $log/actual.diff
if ! git -C $wt apply -R --check $out/patch.diff 2>/dev/null; then echo "$name: patch.diff does not match worktree"; fi
echo "$name: files changed: $(git -C $wt diff --stat | tail -1)"
( cd $wt && CARGO_TARGET_DIR=$wt/target cargo test --workspace --no-fail-fast --offline ) > $log/test.log 2>&1
trc=$?
npass=$(grep -E '^test result' $log/test.log | sed -E 's/.* ([0-9]+) passed.*/\1/' | paste -sd+ | bc)
nfail=$(grep -E '^test result' $log/test.log | sed -E 's/.* ([0-9]+) failed.*/\1/' | paste -sd+ | bc)
echo "$name: tests rc=$trc passed=$npass failed=$nfail"
timeout 600 sh $out/demo.sh /verif/target/sutbin/redo > $log/demo-orig.log 2>&1; d0=$?
timeout 600 sh $out/demo.sh $wt/target/debug/redo > $log/demo-mut.log 2>&1; d1=$?
echo "$name: demo unchanged=$d0 changed=$d1"
for p in "$@"; do
  s=$(date +%s)
  PSIM_REPO=$wt PSIM_SUT_BIN=$wt/target/debug/redo /verif/check $p --tier ${TIER:-quick} > $log/check-$p.log 2>&1; rc=$?
  e=$(date +%s)
  echo "$name: check $p exit=$rc $((e-s))s $(grep -E '^violation kind' $log/check-$p.log | cut -c1-200 | head -3 | tr '\n' ';')"
  for f in $(grep -E '^VIOLATION' $log/check-$p.log | sed 's/.*replay=//'); do cp $f $log/ 2>/dev/null; done
done

#!/usr/bin/env python3
"""Print the DESIGN.md section 11.1 table from /verif/seeded/*/meta.json."""
import json, os
rows = []
for d in sorted(os.listdir('/verif/seeded')):
    p = f'/verif/seeded/{d}/meta.json'
    if not os.path.exists(p):
        continue
    m = json.load(open(p))
    c = m.get('confirmed', {})
    caught = [f"{k} ({', '.join(v['kinds'][:2])})" for k, v in c.get('checks', {}).items() if v.get('caught')]
    missed = [k for k, v in c.get('checks', {}).items() if not v.get('caught')]
    ts = c.get('test_suite')
    tests = f"{ts['passed']} pass" if ts and ts.get('failed') == 0 else ('build only' if c.get('build_ok') else '?')
    demo = c.get('demo', {})
    what = m.get('summary', '').split('. ')[0][:150].replace('|', '/')
    extra = ''
    if m.get('superseded'):
        extra = ' (superseded, see meta.json)'
    elif m.get('note') or m.get('rebased'):
        extra = ' (see note in meta.json)'
    rows.append(f"| {d} | {m['property']} | {what} | {tests}; demo {demo.get('unchanged_exit')}/{demo.get('changed_exit')}; at {c.get('repo_head','?')}{extra} | {'; '.join(caught) or '-'} | {', '.join(missed) or '-'} |")
print("| id | breaks | change (first sentence of the author's summary) | suite; demo unchanged/changed; /repo HEAD | caught by (violation kinds) | ran clean |")
print("|---|---|---|---|---|---|")
print("\n".join(rows))

//! Worker pool: every simulated run executes in a single-threaded worker
//! process (its own child subreaper, its own scratch root on /dev/shm).

use crate::driver::*;
use crate::props::{self, Case, Tier, Violation};
use crate::rng::Rng;
use serde::{Deserialize, Serialize};
use std::collections::{BTreeMap, VecDeque};
use std::io::{BufRead, BufReader, Write};
use std::path::{Path, PathBuf};
use std::process::{Child, Command, Stdio};
use std::sync::{mpsc, Arc, Mutex};
use std::time::Instant;

#[derive(Clone, Debug, Serialize, Deserialize)]
pub enum Job {
    Gen {
        prop: String,
        seed: u64,
        index: u64,
        tier: String,
        want_case: bool,
        #[serde(default)]
        base: u64,
    },
    Case {
        case: Box<Case>,
        /// return the case with the decisions actually taken pinned into it
        pin: bool,
    },
}

#[derive(Clone, Debug, Serialize, Deserialize, Default)]
pub struct RunResult {
    pub index: u64,
    pub seed: u64,
    pub hash: u64,
    pub steps: u64,
    pub sim_ns: u64,
    pub violations: Vec<Violation>,
    pub case: Option<Case>,
    pub harness_error: Option<String>,
    pub nontrivial: bool,
    pub signature: u64,
    pub faults: BTreeMap<String, u64>,
    pub yields: BTreeMap<String, u64>,
    pub probes: BTreeMap<String, u64>,
    pub event_head: Vec<String>,
    pub wall_ms: u64,
    /// additional simulated runs executed inside this job
    #[serde(default)]
    pub sub_runs: u64,
    /// violations found by follow-up runs, each with its own replayable case
    #[serde(default)]
    pub sub_failures: Vec<SubFailure>,
    #[serde(default)]
    pub sub_signatures: Vec<u64>,
}

#[derive(Clone, Debug, Serialize, Deserialize)]
pub struct SubFailure {
    pub violation: Violation,
    pub case: Case,
    pub hash: u64,
    /// how many follow-up runs of this job showed a violation of this kind
    pub count: u64,
}

pub struct Pool {
    workers: Vec<Arc<Mutex<WorkerHandle>>>,
    scratch_base: PathBuf,
}

struct WorkerHandle {
    child: Child,
    stdin: std::process::ChildStdin,
    stdout: BufReader<std::process::ChildStdout>,
    scratch: PathBuf,
    sutbin: PathBuf,
}

fn spawn_worker(scratch: &Path, sutbin: &Path) -> std::io::Result<WorkerHandle> {
    std::fs::create_dir_all(scratch)?;
    let exe = std::env::current_exe()?;
    let mut child = Command::new(exe)
        .arg("--worker")
        .arg(scratch)
        .env("PSIM_SUTBIN", sutbin)
        .stdin(Stdio::piped())
        .stdout(Stdio::piped())
        .stderr(Stdio::inherit())
        .spawn()?;
    let stdin = child.stdin.take().unwrap();
    let stdout = BufReader::new(child.stdout.take().unwrap());
    Ok(WorkerHandle {
        child,
        stdin,
        stdout,
        scratch: scratch.to_path_buf(),
        sutbin: sutbin.to_path_buf(),
    })
}

impl WorkerHandle {
    fn run(&mut self, job: &Job) -> RunResult {
        let line = serde_json::to_string(job).unwrap();
        let mut attempt = || -> Result<RunResult, String> {
            self.stdin
                .write_all(line.as_bytes())
                .and_then(|_| self.stdin.write_all(b"\n"))
                .and_then(|_| self.stdin.flush())
                .map_err(|e| format!("worker write: {}", e))?;
            let mut out = String::new();
            let n = self
                .stdout
                .read_line(&mut out)
                .map_err(|e| format!("worker read: {}", e))?;
            if n == 0 {
                return Err("worker died".into());
            }
            serde_json::from_str(&out).map_err(|e| format!("worker answer: {}", e))
        };
        match attempt() {
            Ok(r) => r,
            Err(e) => {
                // restart the worker; report a harness error for this job
                let _ = self.child.kill();
                let _ = self.child.wait();
                if let Ok(n) = spawn_worker(&self.scratch, &self.sutbin) {
                    *self = n;
                }
                let index = match job {
                    Job::Gen { index, .. } => *index,
                    _ => 0,
                };
                RunResult {
                    index,
                    harness_error: Some(e),
                    ..Default::default()
                }
            }
        }
    }
}

/// Kill leftover processes whose cwd or files live below a scratch directory.
fn kill_strays(scratch: &Path) {
    let s = scratch.to_string_lossy().into_owned();
    if let Ok(rd) = std::fs::read_dir("/proc") {
        for e in rd.flatten() {
            let name = e.file_name().to_string_lossy().into_owned();
            if let Ok(pid) = name.parse::<i32>() {
                if let Ok(env) = std::fs::read(format!("/proc/{}/environ", pid)) {
                    let needle = format!("PSIM_ROOT={}", s);
                    if String::from_utf8_lossy(&env).contains(&needle) {
                        unsafe {
                            libc::kill(pid, libc::SIGKILL);
                        }
                    }
                }
            }
        }
    }
}

impl Pool {
    pub fn start(n: usize, sutbin: &Path) -> std::io::Result<Pool> {
        let base = PathBuf::from(format!("/dev/shm/psim-{}", std::process::id()));
        // remove scratch directories of dead drivers
        if let Ok(rd) = std::fs::read_dir("/dev/shm") {
            for e in rd.flatten() {
                let name = e.file_name().to_string_lossy().into_owned();
                if let Some(p) = name.strip_prefix("psim-") {
                    if let Ok(pid) = p.parse::<i32>() {
                        if !Path::new(&format!("/proc/{}", pid)).exists() {
                            let _ = std::fs::remove_dir_all(e.path());
                        }
                    }
                }
            }
        }
        std::fs::create_dir_all(&base)?;
        let mut workers = Vec::new();
        for k in 0..n {
            let w = spawn_worker(&base.join(format!("w{}", k)), sutbin)?;
            workers.push(Arc::new(Mutex::new(w)));
        }
        Ok(Pool {
            workers,
            scratch_base: base,
        })
    }

    /// Run all jobs; results come back in job order.  Jobs not started within
    /// `wall_cap` seconds are dropped.
    pub fn run_all(&mut self, jobs: Vec<Job>, wall_cap: f64) -> Vec<RunResult> {
        let t0 = Instant::now();
        let queue: Arc<Mutex<VecDeque<(usize, Job)>>> =
            Arc::new(Mutex::new(jobs.into_iter().enumerate().collect()));
        let (tx, rx) = mpsc::channel::<(usize, RunResult)>();
        let mut threads = Vec::new();
        for w in &self.workers {
            let w = w.clone();
            let q = queue.clone();
            let tx = tx.clone();
            threads.push(std::thread::spawn(move || loop {
                let next = { q.lock().unwrap().pop_front() };
                let (i, job) = match next {
                    Some(x) => x,
                    None => break,
                };
                if t0.elapsed().as_secs_f64() > wall_cap {
                    continue;
                }
                let r = w.lock().unwrap().run(&job);
                if tx.send((i, r)).is_err() {
                    break;
                }
            }));
        }
        drop(tx);
        let mut out: Vec<(usize, RunResult)> = rx.iter().collect();
        for t in threads {
            let _ = t.join();
        }
        out.sort_by_key(|(i, _)| *i);
        out.into_iter().map(|(_, r)| r).collect()
    }

    pub fn stop(&mut self) {
        for w in &self.workers {
            let mut w = w.lock().unwrap();
            let _ = w.child.kill();
            let _ = w.child.wait();
        }
        self.workers.clear();
        let _ = std::fs::remove_dir_all(&self.scratch_base);
    }
}

fn parse_tier(s: &str) -> Tier {
    if s == "thorough" {
        Tier::Thorough
    } else {
        Tier::Quick
    }
}

pub fn worker_main(scratch: &str) {
    unsafe {
        libc::signal(libc::SIGPIPE, libc::SIG_IGN);
    }
    let verif = crate::verif_dir();
    let sutbin = PathBuf::from(std::env::var("PSIM_SUTBIN").expect("PSIM_SUTBIN"));
    let bindir = std::env::current_exe()
        .unwrap()
        .parent()
        .unwrap()
        .to_path_buf();
    // every run mounts its own private tmpfs here, so absolute paths are the
    // same in every worker and every run
    let fixed = PathBuf::from("/dev/shm/psimfix");
    let _ = std::fs::create_dir_all(&fixed);
    let _ = std::fs::create_dir_all("/dev/shm/psimout");
    let _ = scratch;
    let paths = Paths {
        scratch: fixed,
        sutbin,
        simdo: bindir.join("simdo"),
        shim: verif.join("target").join("psim_shim.so"),
    };
    let stdin = std::io::stdin();
    let stdout = std::io::stdout();
    for line in stdin.lock().lines() {
        let line = match line {
            Ok(l) => l,
            Err(_) => break,
        };
        if line.trim().is_empty() {
            continue;
        }
        let job: Job = match serde_json::from_str(&line) {
            Ok(j) => j,
            Err(e) => {
                let r = RunResult {
                    harness_error: Some(format!("bad job: {}", e)),
                    ..Default::default()
                };
                let mut o = stdout.lock();
                let _ = writeln!(o, "{}", serde_json::to_string(&r).unwrap());
                let _ = o.flush();
                continue;
            }
        };
        let r = execute(&job, &paths);
        let mut o = stdout.lock();
        let _ = writeln!(o, "{}", serde_json::to_string(&r).unwrap());
        let _ = o.flush();
    }
}

/// Run one job inside fresh PID and mount namespaces: the simulator is pid 1,
/// process ids and tmpfs inode numbers restart for every run (both leak into
/// record lengths and log text, so they must not vary between runs of a seed),
/// and every leftover process dies with the namespace.
fn execute(job: &Job, paths: &Paths) -> RunResult {
    let index = match job {
        Job::Gen { index, .. } => *index,
        _ => 0,
    };
    let fail = |m: String| RunResult {
        index,
        harness_error: Some(m),
        ..Default::default()
    };
    let mut fds = [0i32; 2];
    if unsafe { libc::pipe2(fds.as_mut_ptr(), libc::O_CLOEXEC) } < 0 {
        return fail("pipe".into());
    }
    let pid = unsafe { libc::fork() };
    if pid < 0 {
        return fail("fork".into());
    }
    if pid == 0 {
        unsafe {
            libc::close(fds[0]);
            if libc::unshare(libc::CLONE_NEWPID | libc::CLONE_NEWNS) < 0 {
                let m = serde_json::to_string(&fail(format!(
                    "unshare: {}",
                    std::io::Error::last_os_error()
                )))
                .unwrap();
                libc::write(fds[1], m.as_ptr() as *const _, m.len());
                libc::_exit(0);
            }
            let p2 = libc::fork();
            if p2 != 0 {
                libc::close(fds[1]);
                let mut st = 0;
                libc::waitpid(p2, &mut st, 0);
                libc::_exit(0);
            }
            // pid 1 of the new namespace
            libc::prctl(libc::PR_SET_PDEATHSIG, libc::SIGKILL);
            let none = std::ptr::null::<libc::c_char>();
            libc::mount(
                none,
                b"/\0".as_ptr() as *const _,
                none,
                libc::MS_REC | libc::MS_PRIVATE,
                std::ptr::null(),
            );
            libc::mount(
                b"proc\0".as_ptr() as *const _,
                b"/proc\0".as_ptr() as *const _,
                b"proc\0".as_ptr() as *const _,
                0,
                std::ptr::null(),
            );
            let sc = std::ffi::CString::new(paths.scratch.to_str().unwrap()).unwrap();
            libc::mount(
                b"tmpfs\0".as_ptr() as *const _,
                sc.as_ptr(),
                b"tmpfs\0".as_ptr() as *const _,
                0,
                b"size=1g\0".as_ptr() as *const _,
            );
            // a second private tmpfs (another device number) for command output
            // and TMPDIR: writes there are not scheduling points
            libc::mount(
                b"tmpfs\0".as_ptr() as *const _,
                b"/dev/shm/psimout\0".as_ptr() as *const _,
                b"tmpfs\0".as_ptr() as *const _,
                0,
                b"size=1g\0".as_ptr() as *const _,
            );
        }
        let r = execute_inner(job, paths);
        let m = serde_json::to_string(&r).unwrap();
        let mut b = m.as_bytes();
        while !b.is_empty() {
            let n = unsafe { libc::write(fds[1], b.as_ptr() as *const _, b.len()) };
            if n <= 0 {
                break;
            }
            b = &b[n as usize..];
        }
        unsafe { libc::_exit(0) };
    }
    unsafe { libc::close(fds[1]) };
    let mut data = Vec::new();
    let t0 = Instant::now();
    let mut timed_out = false;
    loop {
        let mut pfd = libc::pollfd {
            fd: fds[0],
            events: libc::POLLIN,
            revents: 0,
        };
        let r = unsafe { libc::poll(&mut pfd, 1, 1000) };
        if r > 0 {
            let mut buf = [0u8; 65536];
            let n = unsafe { libc::read(fds[0], buf.as_mut_ptr() as *mut _, buf.len()) };
            if n <= 0 {
                break;
            }
            data.extend_from_slice(&buf[..n as usize]);
        } else if t0.elapsed().as_secs() > 240 {
            timed_out = true;
            unsafe { libc::kill(pid, libc::SIGKILL) };
            break;
        }
    }
    unsafe {
        libc::close(fds[0]);
        let mut st = 0;
        libc::waitpid(pid, &mut st, 0);
    }
    if timed_out {
        return fail("run exceeded the 240 s wall-clock watchdog".into());
    }
    match serde_json::from_slice::<RunResult>(&data) {
        Ok(r) => r,
        Err(e) => fail(format!("run process died without a result: {}", e)),
    }
}

fn execute_inner(job: &Job, paths: &Paths) -> RunResult {
    let t0 = Instant::now();
    let (case, index, want_case, pin) = match job {
        Job::Gen {
            prop,
            seed,
            index,
            tier,
            want_case,
            base,
        } => {
            let p = match props::find(prop) {
                Some(p) => p,
                None => {
                    return RunResult {
                        index: *index,
                        harness_error: Some(format!("unknown property {}", prop)),
                        ..Default::default()
                    }
                }
            };
            let mut rng = Rng::new(*seed);
            let c = p.generate_with_base(*base, &mut rng, *seed, parse_tier(tier), *index);
            (c, *index, *want_case, false)
        }
        Job::Case { case, pin } => ((**case).clone(), 0, true, *pin),
    };
    let p = match props::find(&case.property) {
        Some(p) => p,
        None => {
            return RunResult {
                index,
                harness_error: Some(format!("unknown property {}", case.property)),
                ..Default::default()
            }
        }
    };
    let mut obs = p.observer(&case);
    let mut case = case;
    let dump = std::env::var("PSIM_DUMP").ok();
    if dump.is_some() {
        case.opts.record_events = true;
    }
    let rec = play(
        &case.scenario,
        paths,
        case.seed,
        &case.knobs,
        &case.opts,
        obs.as_mut(),
    );
    let mut res = RunResult {
        index,
        seed: case.seed,
        hash: rec.hash(),
        steps: rec.total_steps(),
        sim_ns: rec.groups.iter().map(|g| g.sim_ns).sum(),
        wall_ms: 0,
        ..Default::default()
    };
    if let Some(d) = &dump {
        let mut t = String::new();
        for g in &rec.groups {
            t.push_str(&format!("== group {} outcome {:?} hash {:016x}\n", g.step_idx, g.outcome, g.hash));
            for e in &g.events {
                t.push_str(&format!("{} {} {} {:?} {}\n", e.step, e.now, e.lid, e.kind, e.text));
            }
            for (k, r) in g.results.iter().enumerate() {
                t.push_str(&format!("-- cmd {} status {:?}\nstdout:\n{}\nstderr:\n{}\n", k, r.status, r.stdout, r.stderr));
            }
        }
        let _ = std::fs::create_dir_all(d);
        let _ = std::fs::write(format!("{}/run-{}-{}.log", d, index, std::process::id()), t);
    }
    if let Some(e) = &rec.harness_error {
        res.harness_error = Some(e.clone());
        res.case = Some(case);
        return res;
    }
    res.violations = p.check(&case, &rec, obs.as_ref());
    if let Some((sc2, kn2, op2)) = p.reference(&case) {
        let rec2 = play(&sc2, paths, case.seed, &kn2, &op2, &mut NoObserver);
        if let Some(e) = &rec2.harness_error {
            res.harness_error = Some(format!("reference run: {}", e));
            res.case = Some(case);
            return res;
        }
        res.violations
            .extend(p.check_with_reference(&case, &rec, &rec2));
        res.steps += rec2.total_steps();
    }
    res.nontrivial = p.nontrivial(&case, &rec);
    res.signature = p.signature(&case, &rec);
    res.probes = p.probes(&case, &rec);
    for g in &rec.groups {
        for (k, v) in &g.fault_counts {
            *res.faults.entry(k.clone()).or_insert(0) += v;
        }
        for (k, v) in &g.yields_by_class {
            *res.yields.entry(k.to_string()).or_insert(0) += v;
        }
    }
    if res.violations.is_empty() {
        for sub in p.follow_ups(&case, &rec) {
            let mut o2 = p.observer(&sub);
            let r2 = play(&sub.scenario, paths, sub.seed, &sub.knobs, &sub.opts, o2.as_mut());
            res.sub_runs += 1;
            res.steps += r2.total_steps();
            if let Some(e) = &r2.harness_error {
                res.harness_error = Some(format!("follow-up run: {}", e));
                res.case = Some(sub);
                return res;
            }
            for g in &r2.groups {
                for (k, v) in &g.fault_counts {
                    *res.faults.entry(k.clone()).or_insert(0) += v;
                }
            }
            for (k, v) in p.probes(&sub, &r2) {
                *res.probes.entry(k).or_insert(0) += v;
            }
            if p.nontrivial(&sub, &r2) {
                res.sub_signatures.push(p.signature(&sub, &r2));
            }
            for v in p.check(&sub, &r2, o2.as_ref()) {
                if let Some(sf) = res
                    .sub_failures
                    .iter_mut()
                    .find(|sf| sf.violation.kind == v.kind)
                {
                    sf.count += 1;
                    continue;
                }
                let mut c = sub.clone();
                for g in &r2.groups {
                    c.opts.replay.insert(g.step_idx, g.decisions.clone());
                }
                res.sub_failures.push(SubFailure {
                    violation: v,
                    case: c,
                    hash: r2.hash(),
                    count: 1,
                });
            }
        }
    }
    if want_case || !res.violations.is_empty() {
        let mut c = case.clone();
        if pin || !res.violations.is_empty() {
            for g in &rec.groups {
                c.opts.replay.insert(g.step_idx, g.decisions.clone());
            }
        }
        res.case = Some(c);
        if let Some(g) = rec.groups.first() {
            res.event_head = g
                .events
                .iter()
                .take(40)
                .map(|e| format!("{} {} {:?} {}", e.step, e.lid, e.kind, e.text))
                .collect();
        }
    }
    res.wall_ms = t0.elapsed().as_millis() as u64;
    res
}

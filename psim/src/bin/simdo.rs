//! `simdo <dofile> $1 $2 $3` -- interpreter of the .do script DSL
//! (DESIGN.md 4.2).  redo reaches it through the script's `#!` line.  All of
//! its process and file operations go through libc so that the shim
//! schedules them; semantic events are reported by `write(-4242, ..)`.

#[path = "../dsl.rs"]
#[allow(dead_code)]
mod dsl;

use dsl::*;
use std::ffi::CString;

const EVENT_FD: i32 = -4242;

fn event(s: &str) {
    unsafe {
        libc::write(EVENT_FD, s.as_ptr() as *const _, s.len());
    }
}

fn cstr(s: &str) -> CString {
    CString::new(s.as_bytes()).unwrap()
}

fn write_all(fd: i32, mut b: &[u8], chunk: usize) -> bool {
    while !b.is_empty() {
        let n = b.len().min(chunk);
        let r = unsafe { libc::write(fd, b.as_ptr() as *const _, n) };
        if r < 0 {
            let e = std::io::Error::last_os_error();
            if e.raw_os_error() == Some(libc::EINTR) {
                continue;
            }
            return false;
        }
        b = &b[r as usize..];
    }
    true
}

/// fork + execvp + waitpid; optional bytes for the child's stdin.
fn run(argv: &[String], stdin: Option<&[u8]>) -> i32 {
    run_chunked(argv, stdin, 4096)
}

/// Like `run`; the data for the child's stdin is written in pieces of `chunk`
/// bytes (one write each), the way `cat a b c | cmd` delivers it in bursts.
fn run_chunked(argv: &[String], stdin: Option<&[u8]>, chunk: usize) -> i32 {
    let c: Vec<CString> = argv.iter().map(|s| cstr(s)).collect();
    let mut p: Vec<*const libc::c_char> = c.iter().map(|s| s.as_ptr()).collect();
    p.push(std::ptr::null());
    let mut fds = [-1i32; 2];
    if stdin.is_some() {
        unsafe {
            libc::pipe(fds.as_mut_ptr());
        }
    }
    let pid = unsafe { libc::fork() };
    if pid < 0 {
        return 127;
    }
    if pid == 0 {
        unsafe {
            if stdin.is_some() {
                libc::close(fds[1]);
                libc::dup2(fds[0], 0);
                libc::close(fds[0]);
            }
            libc::execvp(p[0], p.as_ptr());
            libc::_exit(127);
        }
    }
    if let Some(data) = stdin {
        unsafe {
            libc::close(fds[0]);
        }
        write_all(fds[1], data, chunk.max(1));
        unsafe {
            libc::close(fds[1]);
        }
    }
    let mut st = 0;
    loop {
        let r = unsafe { libc::waitpid(pid, &mut st, 0) };
        if r == pid {
            break;
        }
        if r < 0 && std::io::Error::last_os_error().raw_os_error() != Some(libc::EINTR) {
            return 127;
        }
    }
    if libc::WIFEXITED(st) {
        libc::WEXITSTATUS(st)
    } else {
        128 + libc::WTERMSIG(st)
    }
}

fn read_file(p: &str) -> Option<Vec<u8>> {
    std::fs::read(p).ok()
}

fn now_ns() -> u128 {
    let mut ts = libc::timespec {
        tv_sec: 0,
        tv_nsec: 0,
    };
    unsafe {
        libc::clock_gettime(libc::CLOCK_REALTIME, &mut ts);
    }
    ts.tv_sec as u128 * 1_000_000_000 + ts.tv_nsec as u128
}

fn set_mtime_now(path: &str) {
    // explicit, strictly increasing mtimes from the simulated clock
    let t = now_ns();
    let ts = [
        libc::timespec {
            tv_sec: (t / 1_000_000_000) as i64,
            tv_nsec: (t % 1_000_000_000) as i64,
        },
        libc::timespec {
            tv_sec: (t / 1_000_000_000) as i64,
            tv_nsec: (t % 1_000_000_000) as i64,
        },
    ];
    let c = cstr(path);
    unsafe {
        libc::utimensat(libc::AT_FDCWD, c.as_ptr(), ts.as_ptr(), 0);
    }
}

static mut BG_PIDS: Vec<i32> = Vec::new();

struct Ctx {
    arg1: String,
    arg3: String,
    lines: Vec<String>,
    mode: OutMode,
    pad: usize,
    target_event: String,
}

impl Ctx {
    fn finish(&self, rc: i32) -> ! {
        // background writers belong to the script: wait for them first
        #[allow(static_mut_refs)]
        for pid in unsafe { BG_PIDS.drain(..) } {
            let mut st = 0;
            loop {
                let r = unsafe { libc::waitpid(pid, &mut st, 0) };
                if r == pid || (r < 0 && std::io::Error::last_os_error().raw_os_error() != Some(libc::EINTR)) {
                    break;
                }
            }
        }
        event(&format!("do-end\t{}\t{}", self.target_event, rc));
        unsafe { libc::exit(rc) }
    }

    fn emit_output(&self, bytes: &[u8]) {
        let to_file = |path: &str, set_time: bool| {
            let c = cstr(path);
            let fd = unsafe {
                libc::open(
                    c.as_ptr(),
                    libc::O_WRONLY | libc::O_CREAT | libc::O_TRUNC,
                    0o644,
                )
            };
            if fd >= 0 {
                write_all(fd, bytes, 16384);
                unsafe {
                    libc::close(fd);
                }
                if set_time {
                    set_mtime_now(path);
                }
            }
        };
        match &self.mode {
            OutMode::Stdout => {
                write_all(1, bytes, 65536);
            }
            OutMode::File => to_file(&self.arg3, false),
            OutMode::Both => {
                write_all(1, bytes, 65536);
                to_file(&self.arg3, false);
            }
            OutMode::None => {}
            OutMode::Append => {
                // two appending writes, like `echo a >>$3; echo b >>$3`
                let c = cstr(&self.arg3);
                let half = bytes.len() / 2;
                for part in [&bytes[..half], &bytes[half..]] {
                    let fd = unsafe {
                        libc::open(
                            c.as_ptr(),
                            libc::O_WRONLY | libc::O_CREAT | libc::O_APPEND,
                            0o644,
                        )
                    };
                    if fd >= 0 {
                        write_all(fd, part, 16384);
                        unsafe {
                            libc::close(fd);
                        }
                    }
                }
            }
            OutMode::Direct => {
                // A direct write usually lands close to the previous mtime of the
                // target: keep it within the same second where a previous file
                // exists (old mtime + 1 us), else use the simulated clock.
                let c = cstr(&self.arg1);
                let mut st: libc::stat = unsafe { std::mem::zeroed() };
                let had = unsafe { libc::lstat(c.as_ptr(), &mut st) } == 0;
                to_file(&self.arg1, !had);
                if had {
                    let mut ns = st.st_mtime_nsec + 1_000;
                    let mut sec = st.st_mtime;
                    if ns >= 1_000_000_000 {
                        ns -= 1_000_000_000;
                        sec += 1;
                    }
                    let ts = [
                        libc::timespec { tv_sec: sec, tv_nsec: ns },
                        libc::timespec { tv_sec: sec, tv_nsec: ns },
                    ];
                    unsafe {
                        libc::utimensat(libc::AT_FDCWD, c.as_ptr(), ts.as_ptr(), 0);
                    }
                }
            }
            OutMode::Link | OutMode::LinkBoth => {
                if self.mode == OutMode::LinkBoth {
                    write_all(1, bytes, 65536);
                }
                let dest = cstr(&link_dest(&self.arg1));
                let c = cstr(&self.arg3);
                unsafe {
                    libc::symlink(dest.as_ptr(), c.as_ptr());
                }
            }
            OutMode::Dir3 => {
                let c = cstr(&self.arg3);
                unsafe {
                    libc::mkdir(c.as_ptr(), 0o755);
                }
                to_file(&format!("{}/file", self.arg3), false);
            }
            OutMode::RuleText(body) => {
                let exe = std::env::current_exe()
                    .map(|p| p.to_string_lossy().into_owned())
                    .unwrap_or_default();
                let mut text = format!("#!{}\n# version {}\n", exe, self.pad);
                for st in body.split(';') {
                    text.push_str(&st.replace(',', "\t"));
                    text.push('\n');
                }
                for l in String::from_utf8_lossy(bytes).lines() {
                    text.push_str("# ");
                    text.push_str(l);
                    text.push('\n');
                }
                write_all(1, text.as_bytes(), 65536);
            }
            OutMode::LinkDir(dir) => {
                let dest = cstr(dir);
                let c = cstr(&self.arg3);
                unsafe {
                    libc::symlink(dest.as_ptr(), c.as_ptr());
                }
            }
            OutMode::Rm3 => {
                to_file(&self.arg3, false);
                let c = cstr(&self.arg3);
                unsafe {
                    libc::unlink(c.as_ptr());
                }
            }
        }
    }
}

fn main() {
    let args: Vec<String> = std::env::args().collect();
    if args.len() < 5 {
        eprintln!("usage: simdo dofile $1 $2 $3");
        std::process::exit(2);
    }
    let dofile = &args[1];
    let root = std::env::var("PSIM_ROOT").unwrap_or_default();
    let cwd0 = std::env::current_dir()
        .map(|p| p.to_string_lossy().into_owned())
        .unwrap_or_default();
    let rel_cwd = cwd0
        .strip_prefix(&root)
        .unwrap_or(&cwd0)
        .trim_start_matches('/')
        .to_string();
    let text = match std::fs::read_to_string(dofile) {
        Ok(t) => t,
        Err(_) => std::process::exit(3),
    };
    let rule = Rule::parse(&text);
    let rule_path = if rel_cwd.is_empty() {
        dofile.clone()
    } else {
        format!("{}/{}", rel_cwd, dofile)
    };
    let target_rel = join_norm(&rel_cwd, &args[2]).unwrap_or_else(|| args[2].clone());
    let mut cx = Ctx {
        arg1: args[2].clone(),
        arg3: args[4].clone(),
        lines: vec![head_line(&args[2], &args[3], &rule_path, rule.version)],
        mode: OutMode::Stdout,
        pad: 0,
        target_event: target_rel.clone(),
    };
    // absolute paths for $1/$3 so that a later chdir does not move them
    cx.arg1 = format!("{}/{}", cwd0, args[2]);
    cx.arg3 = format!("{}/{}", cwd0, args[4]);
    event(&format!(
        "do-begin\t{}\t{}\t{}\t{}\t{}\t{}",
        target_rel, rule_path, args[2], args[3], args[4], rel_cwd
    ));
    for st in &rule.stmts {
        match st {
            Stmt::IfChange(deps) => {
                let mut argv = vec!["redo-ifchange".to_string()];
                argv.extend(deps.iter().cloned());
                let rc = run(&argv, None);
                if rc != 0 {
                    cx.finish(rc);
                }
                for d in deps {
                    let c = read_file(d);
                    cx.lines.push(dep_line('D', d, c.as_deref()));
                }
            }
            Stmt::IfCreate(ps) => {
                let mut argv = vec!["redo-ifcreate".to_string()];
                argv.extend(ps.iter().cloned());
                let rc = run(&argv, None);
                if rc != 0 {
                    cx.finish(rc);
                }
                for p in ps {
                    cx.lines.push(format!("C {}", p));
                }
            }
            Stmt::IfExists(p) => {
                if std::fs::symlink_metadata(p).is_ok() {
                    let rc = run(&["redo-ifchange".to_string(), p.clone()], None);
                    if rc != 0 {
                        cx.finish(rc);
                    }
                    let c = read_file(p);
                    cx.lines.push(dep_line('D', p, c.as_deref()));
                } else {
                    let rc = run(&["redo-ifcreate".to_string(), p.clone()], None);
                    if rc != 0 {
                        cx.finish(rc);
                    }
                    cx.lines.push(format!("C {}", p));
                }
            }
            Stmt::Always => {
                let rc = run(&["redo-always".to_string()], None);
                if rc != 0 {
                    cx.finish(rc);
                }
                cx.lines.push("A".to_string());
            }
            Stmt::Redo(ps) => {
                let mut argv = vec!["redo".to_string()];
                argv.extend(ps.iter().cloned());
                let rc = run(&argv, None);
                if rc != 0 {
                    cx.finish(rc);
                }
            }
            Stmt::Switch { sel, even, odd } => {
                let rc = run(&["redo-ifchange".to_string(), sel.clone()], None);
                if rc != 0 {
                    cx.finish(rc);
                }
                let sb = read_file(sel).unwrap_or_default();
                cx.lines.push(dep_line('D', sel, Some(&sb)));
                let pick = if source_version(&sb) % 2 == 0 { even } else { odd };
                let rc = run(&["redo-ifchange".to_string(), pick.clone()], None);
                if rc != 0 {
                    cx.finish(rc);
                }
                let c = read_file(pick);
                cx.lines.push(dep_line('D', pick, c.as_deref()));
            }
            Stmt::Read(ps) => {
                for p in ps {
                    let c = read_file(p);
                    cx.lines.push(dep_line('R', p, c.as_deref()));
                }
            }
            Stmt::Stamp { only } => {
                let payload = stamp_payload(&cx.lines, only);
                // three bursts: a reader that takes a short read for the end of
                // its input sees only the first of them
                let rc = run_chunked(&["redo-stamp".to_string()], Some(&payload), (payload.len() + 2) / 3);
                if rc != 0 {
                    cx.finish(rc);
                }
            }
            Stmt::Noise => cx.lines.push(format!("N {}", now_ns())),
            Stmt::Work(ms) => {
                event(&format!("work-begin\t{}", cx.target_event));
                let ts = libc::timespec {
                    tv_sec: (*ms / 1000) as i64,
                    tv_nsec: ((*ms % 1000) * 1_000_000) as i64,
                };
                unsafe {
                    libc::nanosleep(&ts, std::ptr::null_mut());
                }
                event(&format!("work-end\t{}", cx.target_event));
            }
            Stmt::Err(t) => {
                let mut b = t.clone().into_bytes();
                b.push(b'\n');
                write_all(2, &b, 1 << 20);
            }
            Stmt::ErrPart(t) => {
                write_all(2, t.as_bytes(), 1 << 20);
            }
            Stmt::ErrLong { n, tag } => {
                let mut b = tag.clone().into_bytes();
                while b.len() < *n {
                    b.push(b'x');
                }
                b.push(b'\n');
                write_all(2, &b, 1 << 20);
            }
            Stmt::Chdir(d) => {
                let c = cstr(d);
                unsafe {
                    libc::chdir(c.as_ptr());
                }
            }
            Stmt::FailIf {
                flag,
                code,
                partial,
                direct,
            } => {
                let p = format!("{}/{}", root, flag);
                let on = read_file(&p).map_or(false, |b| b.first() == Some(&b'1'));
                if on {
                    if *direct {
                        cx.mode = OutMode::Direct;
                    }
                    if *partial {
                        let bytes = assemble(&cx.lines, cx.pad);
                        cx.emit_output(&bytes[..bytes.len() / 2]);
                    }
                    cx.finish(*code);
                }
            }
            Stmt::Out { mode, pad } => {
                cx.mode = mode.clone();
                cx.pad = *pad;
            }
            Stmt::ErrBg { n, tag } => {
                let pid = unsafe { libc::fork() };
                if pid == 0 {
                    for k in 0..*n {
                        let line = format!("{} bg{}\n", tag, k);
                        write_all(2, line.as_bytes(), 1 << 20);
                        let ts = libc::timespec { tv_sec: 0, tv_nsec: 1_000_000 };
                        unsafe {
                            libc::nanosleep(&ts, std::ptr::null_mut());
                        }
                    }
                    unsafe { libc::_exit(0) }
                } else if pid > 0 {
                    #[allow(static_mut_refs)]
                    unsafe {
                        BG_PIDS.push(pid);
                    }
                }
            }
            Stmt::MkDirs => {
                // like `mkdir -p`: one mkdir per missing component (each a
                // scheduling point of class fsw)
                if let Some(i) = cx.arg1.rfind('/') {
                    let dir = cx.arg1[..i].to_string();
                    let mut cur = String::new();
                    for comp in dir.split('/') {
                        if comp.is_empty() {
                            cur.push('/');
                            continue;
                        }
                        if !cur.ends_with('/') && !cur.is_empty() {
                            cur.push('/');
                        }
                        cur.push_str(comp);
                        if std::fs::symlink_metadata(&cur).is_err() {
                            let c = cstr(&cur);
                            unsafe {
                                libc::mkdir(c.as_ptr(), 0o755);
                            }
                        }
                    }
                }
            }
            Stmt::KillSelf(sig) => {
                let bytes = assemble(&cx.lines, cx.pad);
                cx.emit_output(&bytes[..bytes.len() / 2]);
                unsafe {
                    // the harness may have been started with the signal ignored
                    // (a background job of a non-interactive shell ignores
                    // SIGINT): a script always dies of it
                    libc::signal(*sig, libc::SIG_DFL);
                    let mut set: libc::sigset_t = std::mem::zeroed();
                    libc::sigemptyset(&mut set);
                    libc::sigaddset(&mut set, *sig);
                    libc::sigprocmask(libc::SIG_UNBLOCK, &set, std::ptr::null_mut());
                    libc::kill(libc::getpid(), *sig);
                    libc::pause();
                }
            }
        }
    }
    let bytes = assemble(&cx.lines, cx.pad);
    cx.emit_output(&bytes);
    cx.finish(0);
}

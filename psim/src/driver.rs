//! Scenario description, materialisation on disk, and playing a history of
//! edits and commands under the simulator.

use crate::dsl::*;
use crate::model::{FileState, Owner, World};
use crate::rng::mix;
use crate::sim::*;
use serde::{Deserialize, Serialize};
use std::collections::BTreeMap;
use std::os::unix::fs::MetadataExt;
use std::path::{Path, PathBuf};

pub const EPOCH_BASE_NS: u64 = 1_000_000_000 * 1_000_000_000;

#[derive(Clone, Debug, Serialize, Deserialize)]
pub struct Cmd {
    pub argv: Vec<String>,
    /// root-relative working directory
    pub cwd: String,
    #[serde(default)]
    pub env: Vec<(String, String)>,
    /// play GNU make: create a jobserver pipe holding this many tokens
    #[serde(default)]
    pub make_tokens: Option<u32>,
    /// start when the group's simulation reaches this step (0 = at once)
    #[serde(default)]
    pub start_step: u64,
    /// stable identity of the command for seeding (so that inserting or
    /// removing other history steps does not change this command's schedule)
    #[serde(default)]
    pub key: Option<u64>,
    /// `cmd 2>&1 | head`: the reader of the command's output goes away when
    /// the group's simulation reaches this step
    #[serde(default)]
    pub reader_gone_at: Option<u64>,
}

impl Cmd {
    pub fn new(argv: &[&str]) -> Cmd {
        Cmd {
            argv: argv.iter().map(|s| s.to_string()).collect(),
            cwd: String::new(),
            env: Vec::new(),
            make_tokens: None,
            start_step: 0,
            key: None,
            reader_gone_at: None,
        }
    }
    pub fn prog(&self) -> &str {
        &self.argv[0]
    }
    /// positional (non-option) arguments
    pub fn targets(&self) -> Vec<String> {
        self.argv[1..]
            .iter()
            .filter(|a| !a.starts_with('-'))
            .cloned()
            .collect()
    }
}

#[derive(Clone, Debug, Serialize, Deserialize)]
pub enum Step {
    Write { path: String, bytes: Vec<u8> },
    Remove { path: String },
    /// hand edit that keeps the size: the last byte before the final newline
    /// of the file is changed (no-op when the file is absent or empty), either
    /// by replacing the file or by rewriting it in place
    Tweak { path: String, in_place: bool },
    SetRule { path: String, rule: Option<Rule> },
    Cmds(Vec<Cmd>),
}

#[derive(Clone, Debug, Serialize, Deserialize, Default)]
pub struct Scenario {
    pub family: String,
    pub dirs: Vec<String>,
    /// (link path, target) -- target relative to the link's directory
    pub symlinks: Vec<(String, String)>,
    pub files: Vec<(String, Vec<u8>)>,
    pub rules: Vec<(String, Rule)>,
    pub history: Vec<Step>,
}

#[derive(Clone, Debug)]
pub struct FileSnap {
    pub bytes: Vec<u8>,
    pub ino: u64,
    pub mtime_ns: i128,
}

#[derive(Clone, Debug)]
pub struct ProcInfo {
    pub lid: String,
    pub name: String,
    pub target: String,
    pub cmd: usize,
    pub status: Option<i32>,
    pub killed: bool,
    pub alive_at_end: bool,
    pub born_step: u64,
    pub died_step: Option<u64>,
}

#[derive(Clone, Debug)]
pub struct CmdResult {
    pub status: Option<i32>,
    pub stdout: String,
    pub stderr: String,
    /// simulator step at which the top-level process was seen dead
    pub end_step: Option<u64>,
    pub started: bool,
}

#[derive(Clone, Debug)]
pub struct GroupRec {
    pub step_idx: usize,
    pub cmds: Vec<Cmd>,
    pub results: Vec<CmdResult>,
    pub outcome: StepOutcome,
    pub events: Vec<Ev>,
    pub decisions: Vec<Decision>,
    pub procs: Vec<ProcInfo>,
    pub steps: u64,
    pub sim_ns: u64,
    pub hash: u64,
    pub fault_counts: BTreeMap<String, u64>,
    pub yields_by_class: BTreeMap<&'static str, u64>,
    pub sched_sig: u64,
    pub preemptions: u64,
    pub replay_diverged: bool,
    pub kill_fired: Option<String>,
    pub sc_count: u64,
    pub wake_count: u64,
    pub stall_fired: Option<String>,
    /// bytes left in the make-style jobserver pipe of each command that had one
    pub make_left: Vec<Option<u32>>,
    pub deadlock_report: String,
}

/// Structural view of the state database: no run ids, no stamps.
#[derive(Clone, Debug, Default, PartialEq, Eq)]
pub struct DbView {
    /// name -> (is_generated, is_override, failed, has checksum)
    pub files: BTreeMap<String, (bool, bool, bool, bool)>,
    /// (target name, source name, mode)
    pub deps: std::collections::BTreeSet<(String, String, String)>,
    pub integrity: String,
}

pub fn db_view(root: &Path) -> Option<DbView> {
    let p = root.join(".redo/db.sqlite3");
    if !p.exists() {
        return None;
    }
    let db = rusqlite::Connection::open(&p).ok()?;
    let mut v = DbView::default();
    v.integrity = db
        .query_row("pragma integrity_check", [], |r| r.get::<_, String>(0))
        .unwrap_or_else(|e| format!("error: {}", e));
    {
        let mut st = db
            .prepare("select name, is_generated, is_override, failed_runid, csum from Files")
            .ok()?;
        let rows = st
            .query_map([], |r| {
                Ok((
                    r.get::<_, String>(0)?,
                    r.get::<_, Option<i64>>(1)?.unwrap_or(0) != 0,
                    r.get::<_, Option<i64>>(2)?.unwrap_or(0) != 0,
                    r.get::<_, Option<i64>>(3)?.unwrap_or(0) != 0,
                    r.get::<_, Option<String>>(4)?.map_or(false, |c| !c.is_empty()),
                ))
            })
            .ok()?;
        for r in rows.flatten() {
            v.files.insert(r.0, (r.1, r.2, r.3, r.4));
        }
    }
    {
        let mut st = db
            .prepare(
                "select t.name, s.name, d.mode from Deps d join Files t on t.rowid = d.target \
                 join Files s on s.rowid = d.source",
            )
            .ok()?;
        let rows = st
            .query_map([], |r| {
                Ok((
                    r.get::<_, String>(0)?,
                    r.get::<_, String>(1)?,
                    r.get::<_, String>(2)?,
                ))
            })
            .ok()?;
        for r in rows.flatten() {
            v.deps.insert(r);
        }
    }
    Some(v)
}

#[derive(Clone, Debug)]
pub struct RunRecord {
    pub groups: Vec<GroupRec>,
    /// state database after every history step (None before it exists)
    pub db_after: Vec<Option<DbView>>,
    /// file system below the root (without .redo) after every history step
    pub fs_after: Vec<BTreeMap<String, FileSnap>>,
    pub world_after: Vec<World>,
    pub harness_error: Option<String>,
}

impl RunRecord {
    pub fn hash(&self) -> u64 {
        let mut h = 1u64;
        for g in &self.groups {
            h = mix(&[h, g.hash]);
        }
        h
    }
    pub fn total_steps(&self) -> u64 {
        self.groups.iter().map(|g| g.steps).sum()
    }
}

pub struct Paths {
    /// scratch directory of this worker (on /dev/shm)
    pub scratch: PathBuf,
    pub sutbin: PathBuf,
    pub simdo: PathBuf,
    pub shim: PathBuf,
}

impl Paths {
    pub fn root(&self) -> PathBuf {
        self.scratch.join("r")
    }
    pub fn sock(&self) -> PathBuf {
        self.scratch.join("s")
    }
    /// command output goes to another file system than the scenario root so
    /// that writing it is not a scheduling point
    pub fn out(&self) -> PathBuf {
        PathBuf::from("/dev/shm/psimout")
    }
}

pub trait Observer {
    /// called at every quiescent point before the scheduler decides
    fn at_quiescent(&mut self, _sim: &Sim, _group: usize) {}
    /// a group of commands is about to start
    fn group_start(&mut self, _group: usize, _root: &Path) {}
}

pub struct NoObserver;
impl Observer for NoObserver {}

#[derive(Clone, Debug, Default, Serialize, Deserialize)]
pub struct PlayOpts {
    /// decisions to replay, per command group (index in history)
    #[serde(default)]
    pub replay: BTreeMap<usize, Vec<Decision>>,
    /// crash plan: (history index of the group, k-th state-changing yield, whole tree?)
    #[serde(default)]
    pub kill_at: Option<(usize, u64, bool)>,
    #[serde(default)]
    pub record_events: bool,
    /// the crash plan counts yields of script processes (C04) instead of
    /// state-changing yields of redo processes (C10)
    #[serde(default)]
    pub kill_scripts: bool,
    /// wake-up plan: (history index of the group, k-th ready select/poll
    /// wake-up of a redo process): hold that process back until nothing else
    /// can run (C09/C08: everything that can coincide in one wake-up does)
    #[serde(default)]
    pub stall_at: Option<(usize, u64)>,
    /// timed abort: (history index of the group, command index, scheduling
    /// step): SIGKILL to the process group of that command at that step
    #[serde(default)]
    pub kill_cmd_at: Option<(usize, usize, u64)>,
}

fn set_mtime(path: &Path, ns: u64) {
    let t = EPOCH_BASE_NS as u128 + ns as u128;
    let ts = [
        libc::timespec {
            tv_sec: (t / 1_000_000_000) as i64,
            tv_nsec: (t % 1_000_000_000) as i64,
        },
        libc::timespec {
            tv_sec: (t / 1_000_000_000) as i64,
            tv_nsec: (t % 1_000_000_000) as i64,
        },
    ];
    let c = std::ffi::CString::new(path.to_str().unwrap()).unwrap();
    unsafe {
        libc::utimensat(libc::AT_FDCWD, c.as_ptr(), ts.as_ptr(), libc::AT_SYMLINK_NOFOLLOW);
    }
}

fn user_write(root: &Path, rel: &str, bytes: &[u8], clock: &mut u64) {
    let p = root.join(rel);
    if let Some(d) = p.parent() {
        let _ = std::fs::create_dir_all(d);
    }
    // replace rather than rewrite so that the inode changes too
    let tmp = root.join(format!("{}.userwrite.tmp", rel));
    std::fs::write(&tmp, bytes).expect("user write");
    *clock += 1_000_000;
    set_mtime(&tmp, *clock);
    std::fs::rename(&tmp, &p).expect("user rename");
}

thread_local! {
    /// directory links declared by the scenario being played (not files)
    static LAYOUT_LINKS: std::cell::RefCell<std::collections::BTreeSet<String>> =
        std::cell::RefCell::new(Default::default());
}

pub fn snapshot(root: &Path) -> BTreeMap<String, FileSnap> {
    let mut out = BTreeMap::new();
    fn walk(dir: &Path, root: &Path, out: &mut BTreeMap<String, FileSnap>) {
        let rd = match std::fs::read_dir(dir) {
            Ok(r) => r,
            Err(_) => return,
        };
        for e in rd.flatten() {
            let p = e.path();
            let rel = p.strip_prefix(root).unwrap().to_string_lossy().into_owned();
            if rel == ".redo" || rel.ends_with("/.redo") {
                // the state directory (wherever the first command put it)
                continue;
            }
            let md = match std::fs::symlink_metadata(&p) {
                Ok(m) => m,
                Err(_) => continue,
            };
            if md.file_type().is_symlink() {
                // the scenario's own directory links are part of its layout; any
                // other link (to a file, to a directory, dangling) is a file of
                // the project
                if LAYOUT_LINKS.with(|l| l.borrow().contains(&rel)) {
                    continue;
                }
                let dest = std::fs::read_link(&p)
                    .map(|d| d.to_string_lossy().into_owned())
                    .unwrap_or_default();
                out.insert(
                    rel,
                    FileSnap {
                        bytes: crate::dsl::symlink_bytes(&dest),
                        ino: md.ino(),
                        mtime_ns: md.mtime() as i128 * 1_000_000_000 + md.mtime_nsec() as i128,
                    },
                );
                continue;
            }
            if md.is_dir() {
                walk(&p, root, out);
            } else {
                out.insert(
                    rel,
                    FileSnap {
                        bytes: std::fs::read(&p).unwrap_or_default(),
                        ino: md.ino(),
                        mtime_ns: md.mtime() as i128 * 1_000_000_000 + md.mtime_nsec() as i128,
                    },
                );
            }
        }
    }
    walk(root, root, &mut out);
    out
}

pub fn base_env(paths: &Paths) -> Vec<(String, String)> {
    vec![
        (
            "PATH".into(),
            format!(
                "{}:{}:/usr/bin:/bin",
                paths.sutbin.display(),
                paths.simdo.parent().unwrap().display()
            ),
        ),
        ("LD_PRELOAD".into(), paths.shim.display().to_string()),
        ("HOME".into(), "/tmp".into()),
        ("TMPDIR".into(), "/dev/shm/psimout/tmp".into()),
        ("RUST_BACKTRACE".into(), "0".into()),
        ("LANG".into(), "C".into()),
    ]
}

/// Put the scenario's initial state on disk.  Returns the model of it.
pub fn materialise(sc: &Scenario, paths: &Paths, clock: &mut u64) -> World {
    let root = paths.root();
    let _ = std::fs::remove_dir_all(&root);
    let _ = std::fs::remove_dir_all(paths.out());
    std::fs::create_dir_all(&root).expect("create root");
    std::fs::create_dir_all(paths.out().join("tmp")).expect("create out");
    let mut w = World::default();
    for d in &sc.dirs {
        std::fs::create_dir_all(root.join(d)).expect("mkdir");
        w.dirs.insert(d.clone());
    }
    LAYOUT_LINKS.with(|x| {
        *x.borrow_mut() = sc.symlinks.iter().map(|(l, _)| l.clone()).collect();
    });
    for (l, t) in &sc.symlinks {
        let _ = std::os::unix::fs::symlink(t, root.join(l));
    }
    for (p, b) in &sc.files {
        user_write(&root, p, b, clock);
        w.files.insert(
            p.clone(),
            FileState {
                bytes: b.clone(),
                owner: Owner::User,
            },
        );
    }
    let simdo = paths.simdo.to_str().unwrap();
    for (p, r) in &sc.rules {
        user_write(&root, p, r.to_text(simdo).as_bytes(), clock);
        w.rules.insert(p.clone(), r.clone());
    }
    w
}

/// Bring the model's notion of redo-owned files up to date with the disk
/// after a command group: every file that is not user-owned is redo's.
fn absorb(world: &mut World, fs: &BTreeMap<String, FileSnap>) {
    // drop redo-owned files that vanished
    let gone: Vec<String> = world
        .files
        .iter()
        .filter(|(p, f)| f.owner == Owner::Redo && !fs.contains_key(*p))
        .map(|(p, _)| p.clone())
        .collect();
    for p in gone {
        world.files.remove(&p);
    }
    for (p, s) in fs {
        if world.rules.contains_key(p) {
            continue;
        }
        match world.files.get_mut(p) {
            Some(f) if f.owner == Owner::User => {}
            Some(f) => f.bytes = s.bytes.clone(),
            None => {
                world.files.insert(
                    p.clone(),
                    FileState {
                        bytes: s.bytes.clone(),
                        owner: Owner::Redo,
                    },
                );
            }
        }
    }
}

pub fn play(
    sc: &Scenario,
    paths: &Paths,
    seed: u64,
    knobs: &Knobs,
    opts: &PlayOpts,
    obs: &mut dyn Observer,
) -> RunRecord {
    let mut clock: u64 = 1_000_000_000; // simulated ns since the simulated epoch
    let mut world = materialise(sc, paths, &mut clock);
    let root = paths.root();
    let mut rec = RunRecord {
        groups: Vec::new(),
        db_after: Vec::new(),
        fs_after: Vec::new(),
        world_after: Vec::new(),
        harness_error: None,
    };
    let simdo = paths.simdo.to_str().unwrap().to_string();
    for (idx, step) in sc.history.iter().enumerate() {
        match step {
            Step::Write { path, bytes } => {
                *world.touch.entry(path.clone()).or_insert(0) += 1;
                user_write(&root, path, bytes, &mut clock);
                world.files.insert(
                    path.clone(),
                    FileState {
                        bytes: bytes.clone(),
                        owner: Owner::User,
                    },
                );
            }
            Step::Remove { path } => {
                let _ = std::fs::remove_file(root.join(path));
                world.files.remove(path);
                clock += 1_000_000;
            }
            Step::Tweak { path, in_place } => {
                let full = root.join(path);
                let is_file = std::fs::symlink_metadata(&full).map_or(false, |m| m.is_file());
                if let (true, Ok(mut b)) = (is_file, std::fs::read(&full)) {
                    let k = if b.last() == Some(&b'\n') { b.len().wrapping_sub(2) } else { b.len().wrapping_sub(1) };
                    if k < b.len() {
                        b[k] = if b[k] == b'#' { b'%' } else { b'#' };
                        *world.touch.entry(path.clone()).or_insert(0) += 1;
                        if *in_place {
                            std::fs::write(&full, &b).expect("user tweak");
                            clock += 1_000_000;
                            set_mtime(&full, clock);
                        } else {
                            user_write(&root, path, &b, &mut clock);
                        }
                        world.files.insert(
                            path.clone(),
                            FileState {
                                bytes: b,
                                owner: Owner::User,
                            },
                        );
                    }
                }
            }
            Step::SetRule { path, rule } => match rule {
                Some(r) => {
                    *world.touch.entry(path.clone()).or_insert(0) += 1;
                    user_write(&root, path, r.to_text(&simdo).as_bytes(), &mut clock);
                    world.rules.insert(path.clone(), r.clone());
                }
                None => {
                    let _ = std::fs::remove_file(root.join(path));
                    world.rules.remove(path);
                    clock += 1_000_000;
                }
            },
            Step::Cmds(cmds) => {
                obs.group_start(idx, &root);
                let g = play_group(idx, cmds, paths, seed, knobs, opts, &mut clock, obs);
                match g {
                    Ok(g) => rec.groups.push(g),
                    Err(SimError::Harness(e)) => {
                        rec.harness_error = Some(format!("group {}: {}", idx, e));
                        return rec;
                    }
                }
            }
        }
        let fs = snapshot(&root);
        if matches!(step, Step::Cmds(_)) {
            absorb(&mut world, &fs);
        }
        rec.fs_after.push(fs);
        rec.db_after.push(if matches!(step, Step::Cmds(_)) {
            db_view(&root)
        } else {
            None
        });
        rec.world_after.push(world.clone());
    }
    rec
}

fn read_lossy(p: &Path) -> String {
    std::fs::read(p)
        .map(|b| String::from_utf8_lossy(&b).into_owned())
        .unwrap_or_default()
}

#[allow(clippy::too_many_arguments)]
fn play_group(
    idx: usize,
    cmds: &[Cmd],
    paths: &Paths,
    seed: u64,
    knobs: &Knobs,
    opts: &PlayOpts,
    clock: &mut u64,
    obs: &mut dyn Observer,
) -> Result<GroupRec, SimError> {
    let root = paths.root();
    let gseed = match cmds.first().and_then(|c| c.key) {
        Some(k) => mix(&[seed, k, 0x6b]),
        None => mix(&[seed, idx as u64, 0x67]),
    };
    let mut sim = Sim::new(&root, &paths.sock(), gseed, knobs.clone())?;
    sim.env_base = base_env(paths);
    sim.now = *clock + 1_000_000_000;
    sim.record_events = true;
    if let Some(d) = opts.replay.get(&idx) {
        sim.set_replay(d.clone());
    }
    if let Some((g, k, tree)) = opts.kill_at {
        if g == idx {
            sim.kill_at = Some((k, tree));
            sim.kill_scripts = opts.kill_scripts;
        }
    }
    if let Some((g, ci, at)) = opts.kill_cmd_at {
        if g == idx {
            sim.kill_cmd_at = Some((ci, at));
        }
    }
    if let Some((g, k)) = opts.stall_at {
        if g == idx {
            sim.stall_at = Some(k);
        }
    }
    // jobserver pipes for commands that run under a simulated make
    let mut make_pipes: Vec<Option<(i32, i32)>> = Vec::new();
    for c in cmds {
        if let Some(k) = c.make_tokens {
            let mut fds = [0i32; 2];
            unsafe {
                libc::pipe2(fds.as_mut_ptr(), libc::O_CLOEXEC);
                let buf = vec![b'+'; k as usize];
                libc::write(fds[1], buf.as_ptr() as *const _, buf.len());
            }
            make_pipes.push(Some((fds[0], fds[1])));
        } else {
            make_pipes.push(None);
        }
    }
    for (k, mp) in make_pipes.iter().enumerate() {
        if let Some((r, _)) = mp {
            sim.watch_fds.push((format!("make{}", k), *r));
        }
    }
    let mut started = vec![false; cmds.len()];
    let mut cmd_index: Vec<Option<usize>> = vec![None; cmds.len()];
    let spawn_one = |sim: &mut Sim, k: usize| -> Result<usize, SimError> {
        let c = &cmds[k];
        let mut env = c.env.clone();
        let mut fds = Vec::new();
        if let Some((r, w)) = make_pipes[k] {
            fds.push((r, 200));
            fds.push((w, 201));
            env.push((
                "MAKEFLAGS".into(),
                " -j --jobserver-auth=200,201 --jobserver-fds=200,201".into(),
            ));
        }
        let spec = CmdSpec {
            argv: c.argv.clone(),
            cwd: root.join(&c.cwd),
            env,
            fds,
            stdout: paths.out().join(format!("g{}c{}.out", idx, k)),
            stderr: paths.out().join(format!("g{}c{}.err", idx, k)),
            reader_gone_at: c.reader_gone_at,
        };
        sim.spawn(&spec)
    };
    for k in 0..cmds.len() {
        if cmds[k].start_step == 0 {
            cmd_index[k] = Some(spawn_one(&mut sim, k)?);
            started[k] = true;
        }
    }
    let mut end_steps: Vec<Option<u64>> = vec![None; cmds.len()];
    let outcome;
    loop {
        // late starters
        for k in 0..cmds.len() {
            if !started[k] && sim.step >= cmds[k].start_step {
                cmd_index[k] = Some(spawn_one(&mut sim, k)?);
                started[k] = true;
            }
        }
        for k in 0..cmds.len() {
            if let Some(ci) = cmd_index[k] {
                if end_steps[k].is_none() && !sim.cmd_alive(ci) {
                    end_steps[k] = Some(sim.step);
                }
            }
        }
        obs.at_quiescent(&sim, idx);
        let o = sim.step()?;
        match o {
            StepOutcome::Progress => {}
            StepOutcome::AllDead => {
                if started.iter().all(|s| *s) {
                    outcome = o;
                    break;
                }
                // nothing alive but a late starter remains: start it now
                for k in 0..cmds.len() {
                    if !started[k] {
                        cmd_index[k] = Some(spawn_one(&mut sim, k)?);
                        started[k] = true;
                        break;
                    }
                }
            }
            _ => {
                outcome = o;
                break;
            }
        }
    }
    let mut deadlock_report = String::new();
    if outcome != StepOutcome::AllDead {
        for p in sim.procs.iter().filter(|p| p.alive()) {
            deadlock_report.push_str(&format!(
                "[{} {} target={} parked in {:?}] ",
                p.lid,
                p.base_name(),
                p.target,
                p.op.as_ref().map(|o| o.text.clone()).unwrap_or_default()
            ));
        }
    }
    let alive_at_end: Vec<bool> = sim.procs.iter().map(|p| p.alive()).collect();
    let steps = sim.step;
    let _ = sim.kill_all();
    sim.reap_orphans();
    let mut results = Vec::new();
    for k in 0..cmds.len() {
        let status = cmd_index[k].and_then(|ci| sim.top_status(ci));
        results.push(CmdResult {
            status,
            stdout: read_lossy(&paths.out().join(format!("g{}c{}.out", idx, k))),
            stderr: read_lossy(&paths.out().join(format!("g{}c{}.err", idx, k))),
            end_step: end_steps[k],
            started: started[k],
        });
    }
    let mut make_left = Vec::new();
    for mp in &make_pipes {
        match mp {
            Some((r, w)) => {
                let mut n: libc::c_int = 0;
                unsafe {
                    libc::ioctl(*r, libc::FIONREAD, &mut n);
                    libc::close(*r);
                    libc::close(*w);
                }
                make_left.push(Some(n as u32));
            }
            None => make_left.push(None),
        }
    }
    let procs = sim
        .procs
        .iter()
        .enumerate()
        .map(|(i, p)| ProcInfo {
            lid: p.lid.clone(),
            name: p.base_name().to_string(),
            target: p.target.clone(),
            cmd: p.cmd,
            status: p.status(),
            killed: p.killed_by_sim,
            alive_at_end: alive_at_end[i],
            born_step: p.born_step,
            died_step: p.died_step,
        })
        .collect();
    let sim_ns = sim.now.saturating_sub(*clock + 1_000_000_000);
    *clock = sim.now;
    let g = GroupRec {
        step_idx: idx,
        cmds: cmds.to_vec(),
        results,
        outcome,
        hash: sim.event_hash(),
        events: if opts.record_events {
            std::mem::take(&mut sim.events)
        } else {
            // keep semantic events only
            sim.events
                .iter()
                .filter(|e| {
                    matches!(
                        e.kind,
                        EvKind::Op(Class::Event)
                            | EvKind::Op(Class::Proc)
                            | EvKind::Info
                            | EvKind::Dead
                            | EvKind::Hello
                            | EvKind::Fault
                    )
                })
                .cloned()
                .collect()
        },
        decisions: std::mem::take(&mut sim.decisions),
        procs,
        steps,
        sim_ns,
        fault_counts: sim.fault_counts.clone(),
        yields_by_class: sim.yields_by_class.clone(),
        sched_sig: sim.sched_sig,
        preemptions: sim.preemptions,
        replay_diverged: sim.replay_diverged,
        kill_fired: sim.kill_fired.clone(),
        sc_count: sim.sc_count,
        wake_count: sim.wake_count,
        stall_fired: sim.stall_fired.clone(),
        make_left,
        deadlock_report,
    };
    sim.shutdown();
    Ok(g)
}

// ------------------------------------------------------------------ trace

#[derive(Clone, Debug)]
pub struct DoRun {
    /// root-relative target
    pub target: String,
    pub rule: String,
    pub arg1: String,
    pub arg2: String,
    pub arg3: String,
    pub cwd: String,
    pub lid: String,
    pub cmd: usize,
    pub begin: u64,
    /// step of do-end or of the process's death
    pub end: Option<u64>,
    pub rc: Option<i32>,
}

/// Extract the executions of .do scripts from a group's events.
pub fn do_runs(g: &GroupRec) -> Vec<DoRun> {
    let mut runs: Vec<DoRun> = Vec::new();
    let cmd_of: BTreeMap<&str, usize> = g.procs.iter().map(|p| (p.lid.as_str(), p.cmd)).collect();
    for e in &g.events {
        match &e.kind {
            EvKind::Op(Class::Event) => {
                let w: Vec<&str> = e.text.split('\t').collect();
                if w[0] == "do-begin" && w.len() >= 7 {
                    runs.push(DoRun {
                        target: w[1].into(),
                        rule: w[2].into(),
                        arg1: w[3].into(),
                        arg2: w[4].into(),
                        arg3: w[5].into(),
                        cwd: w[6].into(),
                        lid: e.lid.clone(),
                        cmd: *cmd_of.get(e.lid.as_str()).unwrap_or(&0),
                        begin: e.step,
                        end: None,
                        rc: None,
                    });
                } else if w[0] == "do-end" && w.len() >= 3 {
                    if let Some(r) = runs
                        .iter_mut()
                        .rev()
                        .find(|r| r.lid == e.lid && r.end.is_none())
                    {
                        r.end = Some(e.step);
                        r.rc = w[2].parse().ok();
                    }
                }
            }
            EvKind::Dead => {
                if let Some(r) = runs
                    .iter_mut()
                    .rev()
                    .find(|r| r.lid == e.lid && r.end.is_none())
                {
                    r.end = Some(e.step);
                }
            }
            _ => {}
        }
    }
    runs
}

pub fn has_panic(g: &GroupRec) -> Option<String> {
    for (k, r) in g.results.iter().enumerate() {
        for line in r.stderr.lines().chain(r.stdout.lines()) {
            if line.contains("panicked at") || line.contains("RUST_BACKTRACE") {
                return Some(format!("cmd {}: {}", k, line));
            }
        }
    }
    for p in &g.procs {
        if p.name.starts_with("redo") && !p.killed {
            if let Some(s) = p.status {
                if s == 101 || s == -(libc::SIGABRT) || s == -(libc::SIGSEGV) {
                    return Some(format!("{} ({} {}) ended with status {}", p.lid, p.name, p.target, s));
                }
            }
        }
    }
    None
}

//! xoshiro256** seeded through splitmix64.  Own implementation so the stream
//! never changes under us (DESIGN.md 3.6).

#[derive(Clone, Debug)]
pub struct Rng {
    s: [u64; 4],
}

pub fn splitmix(x: &mut u64) -> u64 {
    *x = x.wrapping_add(0x9E3779B97F4A7C15);
    let mut z = *x;
    z = (z ^ (z >> 30)).wrapping_mul(0xBF58476D1CE4E5B9);
    z = (z ^ (z >> 27)).wrapping_mul(0x94D049BB133111EB);
    z ^ (z >> 31)
}

/// Mix several integers into one seed.
pub fn mix(parts: &[u64]) -> u64 {
    let mut h: u64 = 0x51_7c_c1_b7_27_22_0a_95;
    for p in parts {
        let mut x = h ^ p.wrapping_mul(0x9E3779B97F4A7C15);
        h = splitmix(&mut x);
    }
    h
}

pub fn hash_str(s: &str) -> u64 {
    let mut h: u64 = 0xcbf29ce484222325;
    for b in s.as_bytes() {
        h ^= *b as u64;
        h = h.wrapping_mul(0x100000001b3);
    }
    h
}

impl Rng {
    pub fn new(seed: u64) -> Rng {
        let mut x = seed;
        let s = [
            splitmix(&mut x),
            splitmix(&mut x),
            splitmix(&mut x),
            splitmix(&mut x),
        ];
        Rng { s }
    }

    pub fn next_u64(&mut self) -> u64 {
        let r = self.s[1].wrapping_mul(5).rotate_left(7).wrapping_mul(9);
        let t = self.s[1] << 17;
        self.s[2] ^= self.s[0];
        self.s[3] ^= self.s[1];
        self.s[1] ^= self.s[2];
        self.s[0] ^= self.s[3];
        self.s[2] ^= t;
        self.s[3] = self.s[3].rotate_left(45);
        r
    }

    /// Uniform in 0..n (n > 0).
    pub fn below(&mut self, n: u64) -> u64 {
        if n <= 1 {
            return 0;
        }
        // multiply-shift; bias is irrelevant here
        ((self.next_u64() as u128 * n as u128) >> 64) as u64
    }

    pub fn range(&mut self, lo: u64, hi_incl: u64) -> u64 {
        lo + self.below(hi_incl - lo + 1)
    }

    pub fn chance(&mut self, num: u64, den: u64) -> bool {
        self.below(den) < num
    }

    pub fn pick<'a, T>(&mut self, v: &'a [T]) -> &'a T {
        &v[self.below(v.len() as u64) as usize]
    }

    pub fn shuffle<T>(&mut self, v: &mut [T]) {
        for i in (1..v.len()).rev() {
            let j = self.below(i as u64 + 1) as usize;
            v.swap(i, j);
        }
    }
}

//! The `.do` script DSL interpreted by `simdo` (DESIGN.md 4.2), shared by the
//! interpreter, the scenario generators and the from-scratch evaluator.

use serde::{Deserialize, Serialize};

#[derive(Clone, Debug, Serialize, Deserialize, PartialEq, Eq)]
pub enum OutMode {
    Stdout,
    File,
    Both,
    None,
    Direct,
    Rm3,
    /// `>>$3`: append to the $3 file without truncating it first
    Append,
    /// `ln -s <nowhere> $3`: $3 is a symbolic link whose destination does not
    /// exist (t/360-symlinks builds such targets); nothing on stdout
    Link,
    /// the same plus the output on stdout: two outputs, status 207
    LinkBoth,
    /// `ln -s <dir> $3`: the target is a symbolic link to an existing
    /// directory (path relative to the target's directory)
    LinkDir(String),
    /// `mkdir $3; echo ... >$3/file`: the script makes $3 a directory
    Dir3,
    /// the output is itself a rule: `#!<simdo>`, the statements given here
    /// (`;` between statements, `,` between their words), then the usual
    /// output as comment lines -- a generated .do file
    RuleText(String),
}

/// What a snapshot shows for a symbolic link that is a file of the project.
pub fn symlink_bytes(dest: &str) -> Vec<u8> {
    format!("@symlink -> {}\n", dest).into_bytes()
}

/// Destination of the dangling link the `link` output modes create for `$1`.
pub fn link_dest(arg1: &str) -> String {
    format!("nowhere-{}", arg1.rsplit('/').next().unwrap_or(arg1))
}

impl OutMode {
    pub fn name(&self) -> String {
        if let OutMode::LinkDir(d) = self {
            return format!("linkdir:{}", d);
        }
        if let OutMode::RuleText(b) = self {
            return format!("rule:{}", b);
        }
        match self {
            OutMode::Stdout => "stdout",
            OutMode::File => "file",
            OutMode::Both => "both",
            OutMode::None => "none",
            OutMode::Direct => "direct",
            OutMode::Rm3 => "rm3",
            OutMode::Append => "append",
            OutMode::Link => "link",
            OutMode::LinkBoth => "linkboth",
            OutMode::Dir3 => "dir3",
            OutMode::LinkDir(_) | OutMode::RuleText(_) => unreachable!(),
        }
        .to_string()
    }
    pub fn parse(s: &str) -> OutMode {
        if let Some(d) = s.strip_prefix("linkdir:") {
            return OutMode::LinkDir(d.to_string());
        }
        if let Some(b) = s.strip_prefix("rule:") {
            return OutMode::RuleText(b.to_string());
        }
        match s {
            "file" => OutMode::File,
            "both" => OutMode::Both,
            "none" => OutMode::None,
            "direct" => OutMode::Direct,
            "rm3" => OutMode::Rm3,
            "append" => OutMode::Append,
            "link" => OutMode::Link,
            "linkboth" => OutMode::LinkBoth,
            "dir3" => OutMode::Dir3,
            _ => OutMode::Stdout,
        }
    }
}

#[derive(Clone, Debug, Serialize, Deserialize, PartialEq, Eq)]
pub enum Stmt {
    /// declare with redo-ifchange, then read each into the output
    IfChange(Vec<String>),
    IfCreate(Vec<String>),
    Always,
    Redo(Vec<String>),
    /// ifchange `sel`; then ifchange `even` or `odd` by the parity of sel's version
    Switch {
        sel: String,
        even: String,
        odd: String,
    },
    /// `redo-ifchange p` when p exists, else `redo-ifcreate p` (the usual idiom)
    IfExists(String),
    /// read without declaring
    Read(Vec<String>),
    /// pipe the stampable part of the output so far to redo-stamp; with
    /// `only`, just the dependency lines of the listed names
    Stamp {
        only: Vec<String>,
    },
    Noise,
    Work(u64),
    Err(String),
    ErrPart(String),
    ErrLong {
        n: usize,
        tag: String,
    },
    Chdir(String),
    /// exit `code` when the flag file (path relative to the project root)
    /// starts with '1'; `partial` writes half of the output first
    FailIf {
        flag: String,
        code: i32,
        partial: bool,
        /// the partial output is written to $1 itself (`echo x >$1; exit 1`)
        #[serde(default)]
        direct: bool,
    },
    Out {
        mode: OutMode,
        pad: usize,
    },
    KillSelf(i32),
    /// `mkdir -p "$(dirname "$1")"`: the script creates the target's directory itself
    MkDirs,
    /// fork a child that writes `n` numbered stderr lines `<tag> bg<k>` (one
    /// write each, 1 ms apart) while the script carries on; waited for at the end
    ErrBg {
        n: usize,
        tag: String,
    },
}

#[derive(Clone, Debug, Serialize, Deserialize, PartialEq, Eq)]
pub struct Rule {
    pub version: u32,
    pub stmts: Vec<Stmt>,
}

fn join(name: &str, v: &[String]) -> String {
    let mut s = name.to_string();
    for a in v {
        s.push('\t');
        s.push_str(a);
    }
    s
}

impl Rule {
    pub fn to_text(&self, simdo: &str) -> String {
        let mut s = format!("#!{}\n# version {}\n", simdo, self.version);
        for st in &self.stmts {
            let line = match st {
                Stmt::IfChange(v) => join("ifchange", v),
                Stmt::IfCreate(v) => join("ifcreate", v),
                Stmt::Always => "always".to_string(),
                Stmt::Redo(v) => join("redo", v),
                Stmt::Switch { sel, even, odd } => format!("switch\t{}\t{}\t{}", sel, even, odd),
                Stmt::IfExists(p) => format!("ifexists\t{}", p),
                Stmt::Read(v) => join("read", v),
                Stmt::Stamp { only } => join("stamp", only),
                Stmt::Noise => "noise".to_string(),
                Stmt::Work(ms) => format!("work\t{}", ms),
                Stmt::Err(t) => format!("err\t{}", t),
                Stmt::ErrPart(t) => format!("errpart\t{}", t),
                Stmt::ErrLong { n, tag } => format!("errlong\t{}\t{}", n, tag),
                Stmt::Chdir(d) => format!("chdir\t{}", d),
                Stmt::FailIf {
                    flag,
                    code,
                    partial,
                    direct,
                } => format!(
                    "failif\t{}\t{}\t{}",
                    flag,
                    code,
                    if *direct { 2 } else if *partial { 1 } else { 0 }
                ),
                Stmt::Out { mode, pad } => format!("out\t{}\t{}", mode.name(), pad),
                Stmt::KillSelf(sig) => format!("killself\t{}", sig),
                Stmt::MkDirs => "mkdirs".to_string(),
                Stmt::ErrBg { n, tag } => format!("errbg\t{}\t{}", n, tag),
            };
            s.push_str(&line);
            s.push('\n');
        }
        s
    }

    pub fn parse(text: &str) -> Rule {
        let mut version = 0;
        let mut stmts = Vec::new();
        for (i, line) in text.lines().enumerate() {
            if i == 0 && line.starts_with("#!") {
                continue;
            }
            if let Some(v) = line.strip_prefix("# version ") {
                version = v.trim().parse().unwrap_or(0);
                continue;
            }
            if line.starts_with('#') || line.trim().is_empty() {
                continue;
            }
            let w: Vec<&str> = line.split('\t').collect();
            let args = |from: usize| -> Vec<String> {
                w.iter().skip(from).map(|s| s.to_string()).collect()
            };
            let st = match w[0] {
                "ifchange" => Stmt::IfChange(args(1)),
                "ifcreate" => Stmt::IfCreate(args(1)),
                "always" => Stmt::Always,
                "redo" => Stmt::Redo(args(1)),
                "switch" if w.len() >= 4 => Stmt::Switch {
                    sel: w[1].into(),
                    even: w[2].into(),
                    odd: w[3].into(),
                },
                "ifexists" if w.len() >= 2 => Stmt::IfExists(w[1].into()),
                "read" => Stmt::Read(args(1)),
                "stamp" => Stmt::Stamp { only: args(1) },
                "noise" => Stmt::Noise,
                "work" if w.len() >= 2 => Stmt::Work(w[1].parse().unwrap_or(0)),
                "err" => Stmt::Err(w.get(1).unwrap_or(&"").to_string()),
                "errpart" => Stmt::ErrPart(w.get(1).unwrap_or(&"").to_string()),
                "errlong" if w.len() >= 3 => Stmt::ErrLong {
                    n: w[1].parse().unwrap_or(0),
                    tag: w[2].into(),
                },
                "chdir" if w.len() >= 2 => Stmt::Chdir(w[1].into()),
                "failif" if w.len() >= 4 => Stmt::FailIf {
                    flag: w[1].into(),
                    code: w[2].parse().unwrap_or(1),
                    partial: w[3] == "1" || w[3] == "2",
                    direct: w[3] == "2",
                },
                "out" if w.len() >= 3 => Stmt::Out {
                    mode: OutMode::parse(w[1]),
                    pad: w[2].parse().unwrap_or(0),
                },
                "killself" if w.len() >= 2 => Stmt::KillSelf(w[1].parse().unwrap_or(9)),
                "mkdirs" => Stmt::MkDirs,
                "errbg" if w.len() >= 3 => Stmt::ErrBg {
                    n: w[1].parse().unwrap_or(1),
                    tag: w[2].into(),
                },
                _ => continue,
            };
            stmts.push(st);
        }
        Rule { version, stmts }
    }
}

/// Content of a source file: `S<name>#<version>\n`.
pub fn source_content(name: &str, version: u32) -> Vec<u8> {
    format!("S{}#{}\n", name, version).into_bytes()
}

/// Version parsed back out of a source's content (for `switch`).
pub fn source_version(content: &[u8]) -> u32 {
    let s = String::from_utf8_lossy(content);
    s.trim()
        .rsplit('#')
        .next()
        .and_then(|v| v.parse().ok())
        .unwrap_or(0)
}

/// Drop noise lines.
pub fn strip_noise(content: &[u8]) -> Vec<u8> {
    let mut out = Vec::with_capacity(content.len());
    for line in content.split_inclusive(|b| *b == b'\n') {
        if line.starts_with(b"N ") {
            continue;
        }
        out.extend_from_slice(line);
    }
    out
}

/// 64-bit FNV-1a digest over the content without noise lines, as hex.
pub fn digest(content: &[u8]) -> String {
    let c = strip_noise(content);
    let mut h: u64 = 0xcbf29ce484222325;
    for b in &c {
        h ^= *b as u64;
        h = h.wrapping_mul(0x100000001b3);
    }
    format!("{:016x}", h)
}

pub fn dep_line(kind: char, name: &str, content: Option<&[u8]>) -> String {
    match content {
        Some(c) => format!("{} {} {}", kind, name, digest(c)),
        None => format!("{} {} absent", kind, name),
    }
}

pub fn head_line(arg1: &str, arg2: &str, rule_path: &str, version: u32) -> String {
    format!("T {} {} rule={}#{}", arg1, arg2, rule_path, version)
}

/// Assemble the final output bytes from the lines plus padding up to `pad`.
pub fn assemble(lines: &[String], pad: usize) -> Vec<u8> {
    let mut out = Vec::new();
    for l in lines {
        out.extend_from_slice(l.as_bytes());
        out.push(b'\n');
    }
    if pad > out.len() {
        let mut need = pad - out.len();
        while need > 0 {
            // lines of at most 64 bytes: "P" + filler + "\n"
            let n = need.min(64);
            if n == 1 {
                out.push(b'\n');
            } else {
                out.push(b'P');
                for _ in 0..n - 2 {
                    out.push(b'.');
                }
                out.push(b'\n');
            }
            need -= n;
        }
    }
    out
}

/// The bytes fed to redo-stamp.
pub fn stamp_payload(lines: &[String], only: &[String]) -> Vec<u8> {
    let mut out = Vec::new();
    for l in lines {
        if l.starts_with("N ") {
            continue;
        }
        if !only.is_empty() {
            let mut w = l.split(' ');
            let k = w.next().unwrap_or("");
            let name = w.next().unwrap_or("");
            if !(k == "D" && only.iter().any(|o| o == name)) {
                continue;
            }
        }
        out.extend_from_slice(l.as_bytes());
        out.push(b'\n');
    }
    out
}

/// Lexical normalisation of a relative path against a directory (both relative
/// to the project root, "" = root).  Returns None when it escapes the root.
pub fn join_norm(dir: &str, p: &str) -> Option<String> {
    let mut parts: Vec<&str> = if p.starts_with('/') {
        Vec::new()
    } else {
        dir.split('/').filter(|s| !s.is_empty() && *s != ".").collect()
    };
    for c in p.split('/') {
        match c {
            "" | "." => {}
            ".." => {
                parts.pop()?;
            }
            x => parts.push(x),
        }
    }
    Some(parts.join("/"))
}

pub fn dir_of(p: &str) -> &str {
    match p.rfind('/') {
        Some(i) => &p[..i],
        None => "",
    }
}

pub fn base_of(p: &str) -> &str {
    match p.rfind('/') {
        Some(i) => &p[i + 1..],
        None => p,
    }
}

/// Express `p` (root-relative) relative to directory `dir` (root-relative).
pub fn rel_to(p: &str, dir: &str) -> String {
    let pp: Vec<&str> = p.split('/').filter(|s| !s.is_empty()).collect();
    let dd: Vec<&str> = dir.split('/').filter(|s| !s.is_empty()).collect();
    let mut n = 0;
    while n < pp.len() && n < dd.len() && pp[n] == dd[n] {
        n += 1;
    }
    let mut out: Vec<&str> = Vec::new();
    for _ in n..dd.len() {
        out.push("..");
    }
    for c in &pp[n..] {
        out.push(c);
    }
    out.join("/")
}

#[derive(Clone, Debug, PartialEq, Eq)]
pub struct Candidate {
    /// root-relative path of the .do file
    pub do_path: String,
    /// root-relative directory of the .do file
    pub do_dir: String,
    /// $1 and $2 as seen from do_dir
    pub arg1: String,
    pub arg2: String,
}

/// Reference enumeration of the .do candidates for a root-relative target,
/// written from the property statement (C13), independent of paths.rs:
/// `<name>.do`, then in the target's directory and each ancestor up to the
/// root, `default.<ext>.do` from the longest extension to the shortest and
/// finally `default.do`.
pub fn candidates(target: &str) -> Vec<Candidate> {
    let mut out = Vec::new();
    let dir = dir_of(target).to_string();
    let name = base_of(target).to_string();
    out.push(Candidate {
        do_path: if dir.is_empty() {
            format!("{}.do", name)
        } else {
            format!("{}/{}.do", dir, name)
        },
        do_dir: dir.clone(),
        arg1: name.clone(),
        arg2: name.clone(),
    });
    let mut d: Option<String> = Some(dir.clone());
    while let Some(cur) = d {
        let sub = rel_to(&dir, &cur);
        let pre = |s: &str| -> String {
            if sub.is_empty() {
                s.to_string()
            } else {
                format!("{}/{}", sub, s)
            }
        };
        let dots: Vec<usize> = name
            .char_indices()
            .filter(|(_, c)| *c == '.')
            .map(|(i, _)| i)
            .collect();
        for i in dots {
            let ext = &name[i..];
            let stem = &name[..i];
            let f = format!("default{}.do", ext);
            out.push(Candidate {
                do_path: if cur.is_empty() {
                    f.clone()
                } else {
                    format!("{}/{}", cur, f)
                },
                do_dir: cur.clone(),
                arg1: pre(&name),
                arg2: pre(stem),
            });
        }
        out.push(Candidate {
            do_path: if cur.is_empty() {
                "default.do".to_string()
            } else {
                format!("{}/default.do", cur)
            },
            do_dir: cur.clone(),
            arg1: pre(&name),
            arg2: pre(&name),
        });
        d = if cur.is_empty() {
            None
        } else {
            Some(dir_of(&cur).to_string())
        };
    }
    out
}

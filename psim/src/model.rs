//! Harness-side model of the project (who owns which file) and the
//! from-scratch evaluator `eval` (DESIGN.md section 5.1).

use crate::dsl::*;
use std::collections::{BTreeMap, BTreeSet};

#[derive(Clone, Debug, PartialEq, Eq)]
pub enum Owner {
    User,
    Redo,
}

#[derive(Clone, Debug)]
pub struct FileState {
    pub bytes: Vec<u8>,
    pub owner: Owner,
}

#[derive(Clone, Debug, Default)]
pub struct World {
    /// root-relative path -> state, for files that exist (rules excluded)
    pub files: BTreeMap<String, FileState>,
    /// root-relative .do path -> rule
    pub rules: BTreeMap<String, Rule>,
    pub dirs: BTreeSet<String>,
    /// how often the user has (re)written each path in the history so far:
    /// a rewrite with identical bytes still changes the file's stamp
    pub touch: BTreeMap<String, u64>,
}

#[derive(Clone, Debug, PartialEq, Eq)]
pub enum Built {
    /// target has this content
    Bytes(Vec<u8>),
    /// script succeeded without output: target file absent
    Absent,
}

#[derive(Clone, Debug, PartialEq, Eq)]
pub enum EvalErr {
    Fail(i32),
    NoRule,
    Cycle,
}

impl World {
    pub fn exists(&self, p: &str) -> bool {
        self.files.contains_key(p) || self.rules.contains_key(p) || self.dirs.contains(p)
    }

    pub fn rule_for(&self, target: &str) -> Option<(Candidate, &Rule)> {
        for c in candidates(target) {
            if let Some(r) = self.rules.get(&c.do_path) {
                return Some((c, r));
            }
        }
        None
    }

    pub fn is_user_file(&self, p: &str) -> bool {
        matches!(self.files.get(p), Some(f) if f.owner == Owner::User) || self.rules.contains_key(p)
    }

    fn flag_on(&self, flag: &str) -> bool {
        self.files
            .get(flag)
            .map_or(false, |f| f.bytes.first() == Some(&b'1'))
    }

    /// What a from-scratch build would make of `target` given the current
    /// user-owned files and rules.
    pub fn eval(&self, target: &str) -> Result<Built, EvalErr> {
        let mut memo = BTreeMap::new();
        let mut stack = Vec::new();
        self.eval_in(target, &mut memo, &mut stack)
    }

    pub fn eval_memo(
        &self,
        target: &str,
        memo: &mut BTreeMap<String, Result<Built, EvalErr>>,
    ) -> Result<Built, EvalErr> {
        let mut stack = Vec::new();
        self.eval_in(target, memo, &mut stack)
    }

    fn eval_in(
        &self,
        target: &str,
        memo: &mut BTreeMap<String, Result<Built, EvalErr>>,
        stack: &mut Vec<String>,
    ) -> Result<Built, EvalErr> {
        if let Some(r) = memo.get(target) {
            return r.clone();
        }
        if stack.iter().any(|s| s == target) {
            return Err(EvalErr::Cycle);
        }
        stack.push(target.to_string());
        let r = self.eval_uncached(target, memo, stack);
        stack.pop();
        memo.insert(target.to_string(), r.clone());
        r
    }

    fn eval_uncached(
        &self,
        target: &str,
        memo: &mut BTreeMap<String, Result<Built, EvalErr>>,
        stack: &mut Vec<String>,
    ) -> Result<Built, EvalErr> {
        if let Some(r) = self.rules.get(target) {
            // a .do file used as a dependency is a plain source
            return Ok(Built::Bytes(r.to_text("").into_bytes()));
        }
        if let Some(f) = self.files.get(target) {
            if f.owner == Owner::User {
                return Ok(Built::Bytes(f.bytes.clone()));
            }
        }
        let (cand, rule) = match self.rule_for(target) {
            Some(x) => x,
            None => return Err(EvalErr::NoRule),
        };
        let mut cwd = cand.do_dir.clone();
        let mut lines = vec![head_line(&cand.arg1, &cand.arg2, &cand.do_path, rule.version)];
        let mut mode = OutMode::Stdout;
        let mut pad = 0usize;
        for st in &rule.stmts {
            match st {
                Stmt::IfChange(deps) => {
                    // redo-ifchange builds all of them; the first failure fails the script
                    let mut contents = Vec::new();
                    for d in deps {
                        let p = match join_norm(&cwd, d) {
                            Some(p) => p,
                            None => return Err(EvalErr::Fail(1)),
                        };
                        match self.eval_in(&p, memo, stack) {
                            Ok(b) => contents.push((d.clone(), b)),
                            Err(EvalErr::Cycle) => return Err(EvalErr::Cycle),
                            Err(_) => return Err(EvalErr::Fail(1)),
                        }
                    }
                    for (d, b) in contents {
                        match b {
                            Built::Bytes(c) => lines.push(dep_line('D', &d, Some(&c))),
                            Built::Absent => lines.push(dep_line('D', &d, None)),
                        }
                    }
                }
                Stmt::IfCreate(ps) => {
                    for p in ps {
                        let abs = join_norm(&cwd, p).ok_or(EvalErr::Fail(1))?;
                        if self.exists(&abs) {
                            return Err(EvalErr::Fail(1));
                        }
                        lines.push(format!("C {}", p));
                    }
                }
                Stmt::IfExists(p) => {
                    let abs = join_norm(&cwd, p).ok_or(EvalErr::Fail(1))?;
                    if self.exists(&abs) {
                        match self.eval_in(&abs, memo, stack) {
                            Ok(Built::Bytes(c)) => lines.push(dep_line('D', p, Some(&c))),
                            Ok(Built::Absent) => lines.push(dep_line('D', p, None)),
                            Err(EvalErr::Cycle) => return Err(EvalErr::Cycle),
                            Err(_) => return Err(EvalErr::Fail(1)),
                        }
                    } else {
                        lines.push(format!("C {}", p));
                    }
                }
                Stmt::Always => lines.push("A".to_string()),
                Stmt::Redo(ps) => {
                    // (words starting with '-' are options of the nested redo)
                    for p in ps.iter().filter(|p| !p.starts_with('-')) {
                        let abs = join_norm(&cwd, p).ok_or(EvalErr::Fail(1))?;
                        match self.eval_in(&abs, memo, stack) {
                            Ok(_) => {}
                            Err(EvalErr::Cycle) => return Err(EvalErr::Cycle),
                            Err(_) => return Err(EvalErr::Fail(1)),
                        }
                    }
                }
                Stmt::Switch { sel, even, odd } => {
                    let sp = join_norm(&cwd, sel).ok_or(EvalErr::Fail(1))?;
                    let sb = match self.eval_in(&sp, memo, stack) {
                        Ok(Built::Bytes(c)) => c,
                        Ok(Built::Absent) => Vec::new(),
                        Err(EvalErr::Cycle) => return Err(EvalErr::Cycle),
                        Err(_) => return Err(EvalErr::Fail(1)),
                    };
                    lines.push(dep_line('D', sel, Some(&sb)));
                    let pick = if source_version(&sb) % 2 == 0 { even } else { odd };
                    let pp = join_norm(&cwd, pick).ok_or(EvalErr::Fail(1))?;
                    match self.eval_in(&pp, memo, stack) {
                        Ok(Built::Bytes(c)) => lines.push(dep_line('D', pick, Some(&c))),
                        Ok(Built::Absent) => lines.push(dep_line('D', pick, None)),
                        Err(EvalErr::Cycle) => return Err(EvalErr::Cycle),
                        Err(_) => return Err(EvalErr::Fail(1)),
                    }
                }
                Stmt::Read(ps) => {
                    for p in ps {
                        let abs = join_norm(&cwd, p).ok_or(EvalErr::Fail(1))?;
                        // an undeclared read sees whatever is on disk; from scratch
                        // that is the user file, or nothing
                        let c = self
                            .files
                            .get(&abs)
                            .filter(|f| f.owner == Owner::User)
                            .map(|f| f.bytes.clone());
                        lines.push(dep_line('R', p, c.as_deref()));
                    }
                }
                Stmt::Stamp { .. } => {}
                Stmt::Noise => lines.push("N ?".to_string()),
                Stmt::Work(_) | Stmt::Err(_) | Stmt::ErrPart(_) | Stmt::ErrLong { .. } => {}
                Stmt::Chdir(d) => {
                    cwd = join_norm(&cwd, d).ok_or(EvalErr::Fail(1))?;
                }
                Stmt::FailIf { flag, code, .. } => {
                    if self.flag_on(flag) {
                        return Err(EvalErr::Fail(*code));
                    }
                }
                Stmt::Out { mode: m, pad: p } => {
                    mode = m.clone();
                    pad = *p;
                }
                Stmt::KillSelf(sig) => return Err(EvalErr::Fail(-*sig)),
                Stmt::MkDirs => {}
                Stmt::ErrBg { .. } => {}
            }
        }
        let bytes = assemble(&lines, pad);
        match mode {
            OutMode::Stdout | OutMode::File | OutMode::Append => {
                if bytes.is_empty() {
                    Ok(Built::Absent)
                } else {
                    Ok(Built::Bytes(bytes))
                }
            }
            // (a directory target is no file: the snapshot shows what is inside)
            OutMode::None | OutMode::Rm3 | OutMode::Dir3 => Ok(Built::Absent),
            OutMode::Both | OutMode::LinkBoth => Err(EvalErr::Fail(207)),
            OutMode::Link => Ok(Built::Bytes(symlink_bytes(&link_dest(&cand.arg1)))),
            OutMode::LinkDir(d) => Ok(Built::Bytes(symlink_bytes(&d))),
            // (the evaluator does not interpret generated rules; the family that
            // uses them is judged by trace invariants only)
            OutMode::RuleText(_) => Ok(Built::Bytes(b"@generated-rule\n".to_vec())),
            OutMode::Direct => Err(EvalErr::Fail(206)),
        }
    }

    /// Static (syntactic) dependency closure of a target under the current rules:
    /// every path mentioned by ifchange/switch/redo statements, transitively.
    pub fn closure(&self, target: &str) -> BTreeSet<String> {
        let mut seen = BTreeSet::new();
        let mut todo = vec![target.to_string()];
        while let Some(t) = todo.pop() {
            if !seen.insert(t.clone()) {
                continue;
            }
            if self.is_user_file(&t) {
                continue;
            }
            if let Some((cand, rule)) = self.rule_for(&t) {
                let mut cwd = cand.do_dir.clone();
                for st in &rule.stmts {
                    let mut add = |p: &str, cwd: &str| {
                        if let Some(a) = join_norm(cwd, p) {
                            todo.push(a);
                        }
                    };
                    match st {
                        Stmt::IfChange(v) | Stmt::Redo(v) => {
                            for p in v.iter().filter(|p| !p.starts_with('-')) {
                                add(p, &cwd);
                            }
                        }
                        Stmt::Switch { sel, even, odd } => {
                            add(sel, &cwd);
                            add(even, &cwd);
                            add(odd, &cwd);
                        }
                        Stmt::IfExists(p) => add(p, &cwd),
                        Stmt::Chdir(d) => {
                            if let Some(n) = join_norm(&cwd, d) {
                                cwd = n;
                            }
                        }
                        _ => {}
                    }
                }
            }
        }
        seen
    }
}

//! The process-level deterministic simulator (DESIGN.md section 3).
//!
//! Real OS processes run the real binaries under `psim_shim.so`.  Every
//! process is parked in an intercepted libc call except the one the scheduler
//! released last; all scheduling, timing and fault decisions are drawn from a
//! seeded PRNG or from a recorded decision list (replay).

use crate::rng::{hash_str, mix, Rng};
use std::collections::{BTreeMap, HashMap, HashSet};
use std::ffi::CString;
use std::os::unix::io::RawFd;
use std::path::{Path, PathBuf};
use std::time::{Duration, Instant};

#[derive(Clone, Copy, Debug, PartialEq, Eq, Hash, PartialOrd, Ord)]
pub enum Class {
    Hello,
    Proc,
    Wait,
    Lock,
    Pipe,
    Time,
    Fsw,
    Event,
}

impl Class {
    fn parse(s: &str) -> Class {
        match s {
            "proc" => Class::Proc,
            "wait" => Class::Wait,
            "lock" => Class::Lock,
            "pipe" => Class::Pipe,
            "time" => Class::Time,
            "fsw" => Class::Fsw,
            "event" => Class::Event,
            _ => Class::Proc,
        }
    }
    pub fn name(self) -> &'static str {
        match self {
            Class::Hello => "hello",
            Class::Proc => "proc",
            Class::Wait => "wait",
            Class::Lock => "lock",
            Class::Pipe => "pipe",
            Class::Time => "time",
            Class::Fsw => "fsw",
            Class::Event => "event",
        }
    }
    /// May executing an op of this class change whether another parked
    /// process would block?
    fn affects_readiness(self) -> bool {
        matches!(
            self,
            Class::Hello | Class::Proc | Class::Wait | Class::Lock | Class::Pipe
        )
    }
}

#[derive(Clone, Debug)]
pub struct Op {
    pub class: Class,
    pub blocking: bool,
    pub deadline: Option<u64>,
    /// normalised text: no pids, no inode numbers
    pub text: String,
    ready: Option<bool>,
}

#[derive(Clone, Debug, PartialEq, Eq)]
pub enum PState {
    Running,
    AwaitExec,
    Parked,
    Dead,
}

#[derive(Clone, Debug)]
pub struct Proc {
    pub lid: String,
    pub pid: i32,
    fd: RawFd,
    pub parent: Option<usize>,
    nchild: u32,
    nexec: u32,
    pub state: PState,
    pub op: Option<Op>,
    pub argv0: String,
    pub target: String,
    pub cwd: String,
    pub cmd: usize,
    itimer: Option<(u64, u64)>,
    exec_pending: bool,
    /// argument of an intercepted exit()
    pub exit_code: Option<i32>,
    /// raw wait status seen by whoever reaped the process
    pub wait_status: Option<i32>,
    pub killed_by_sim: bool,
    pub born_step: u64,
    pub died_step: Option<u64>,
    prio: u64,
}

impl Proc {
    pub fn base_name(&self) -> &str {
        self.argv0.rsplit('/').next().unwrap_or(&self.argv0)
    }
    pub fn is_redo(&self) -> bool {
        self.base_name().starts_with("redo")
    }
    pub fn is_script(&self) -> bool {
        let b = self.base_name();
        b == "simdo" || b == "sh" || b == "dash"
    }
    pub fn alive(&self) -> bool {
        self.state != PState::Dead
    }
    /// Exit status as a shell would report it (negative for signals), if known.
    pub fn status(&self) -> Option<i32> {
        if let Some(st) = self.wait_status {
            if libc::WIFEXITED(st) {
                return Some(libc::WEXITSTATUS(st));
            }
            if libc::WIFSIGNALED(st) {
                return Some(-libc::WTERMSIG(st));
            }
        }
        self.exit_code
    }
}

#[derive(Clone, Debug, serde::Serialize, serde::Deserialize, PartialEq, Eq)]
pub struct Decision {
    /// logical process id
    pub p: String,
    /// 'G' go, 'T' timeout, 'E' eintr, 'K' kill, 'S' stall, 'M' hold until nothing else can run (wake-up plan)
    pub v: char,
}

#[derive(Clone, Debug)]
pub enum EvKind {
    Hello,
    Op(Class),
    Info,
    Dead,
    Go(char),
    Fault,
    Jump,
}

#[derive(Clone, Debug)]
pub struct Ev {
    pub step: u64,
    pub now: u64,
    pub lid: String,
    pub kind: EvKind,
    pub text: String,
}

#[derive(Clone, Copy, Debug, PartialEq, Eq, serde::Serialize, serde::Deserialize)]
pub enum Policy {
    Serial,
    Random,
    Pct,
}

#[derive(Clone, Debug, serde::Serialize, serde::Deserialize)]
pub struct Knobs {
    pub policy: Policy,
    /// per-mille probability of switching away from the current process at a
    /// yield, by class [proc, wait, lock, pipe, time, fsw, event]
    pub switch_pm: [u32; 7],
    pub step_cost_ns: u64,
    pub pct_depth: u32,
    /// per-mille probability, at each step, of starting a stall of a process
    /// parked in select/poll
    pub stall_pm: u32,
    pub stall_steps: u32,
    pub max_steps: u64,
}

impl Knobs {
    pub fn serial() -> Knobs {
        Knobs {
            policy: Policy::Serial,
            switch_pm: [0; 7],
            step_cost_ns: 10_000,
            pct_depth: 0,
            stall_pm: 0,
            stall_steps: 0,
            max_steps: 60_000,
        }
    }
    pub fn draw(rng: &mut Rng) -> Knobs {
        let policy = match rng.below(10) {
            0 => Policy::Serial,
            1..=6 => Policy::Random,
            _ => Policy::Pct,
        };
        let hi = rng.range(50, 600) as u32;
        let lo = rng.range(0, 60) as u32;
        Knobs {
            policy,
            // proc wait lock pipe time fsw event
            switch_pm: [hi, hi, hi / 2 + lo, hi, hi, lo, hi / 2],
            step_cost_ns: *rng.pick(&[1_000u64, 5_000, 10_000, 50_000]),
            pct_depth: rng.range(1, 5) as u32,
            stall_pm: *rng.pick(&[0u32, 0, 5, 20, 60]),
            stall_steps: rng.range(20, 400) as u32,
            max_steps: 60_000,
        }
    }
}

#[derive(Debug)]
pub enum SimError {
    /// harness problem: never a verdict
    Harness(String),
}

#[derive(Debug, Clone, PartialEq, Eq)]
pub enum StepOutcome {
    Progress,
    /// all commands of interest finished and nothing is alive
    AllDead,
    /// processes alive, none enabled, no deadline: genuine deadlock
    Deadlock,
    StepLimit,
}

pub struct CmdSpec {
    pub argv: Vec<String>,
    pub cwd: PathBuf,
    pub env: Vec<(String, String)>,
    /// extra descriptors to install in the child: (fd in simulator, fd number in child)
    pub fds: Vec<(RawFd, RawFd)>,
    pub stdout: PathBuf,
    pub stderr: PathBuf,
    /// `cmd 2>&1 | head`: stdout and stderr are one pipe whose reader copies
    /// it to the stderr file until the run reaches this scheduling step and
    /// then goes away (later writes meet EPIPE / SIGPIPE)
    pub reader_gone_at: Option<u64>,
}

pub struct FaultPlan {
    /// kill the process that is about to execute the k-th state-changing
    /// yield (counted over classes fsw/lock/proc of redo processes); scope
    /// true = whole tree
    pub kill_at: Option<(u64, bool)>,
}

pub struct Sim {
    pub root: PathBuf,
    sock_path: PathBuf,
    listener: RawFd,
    pub procs: Vec<Proc>,
    by_pid: HashMap<i32, usize>,
    dead_by_pid: HashMap<i32, usize>,
    expected: HashSet<i32>,
    early_hello: HashSet<i32>,
    pending_top: HashMap<i32, (usize, String)>,
    pub now: u64,
    pub step: u64,
    pub rng: Rng,
    pub seed: u64,
    pub knobs: Knobs,
    pub events: Vec<Ev>,
    pub decisions: Vec<Decision>,
    replay: Option<Vec<Decision>>,
    pub replay_diverged: bool,
    current: Option<usize>,
    stalled: HashMap<usize, u64>,
    pipe_ids: HashMap<String, usize>,
    pub ncmds: usize,
    pub env_base: Vec<(String, String)>,
    pub fault_counts: BTreeMap<String, u64>,
    pub yields_by_class: BTreeMap<&'static str, u64>,
    pub sched_sig: u64,
    pub preemptions: u64,
    /// count of state-changing yields executed so far (for crash-point plans)
    pub sc_count: u64,
    pub kill_at: Option<(u64, bool)>,
    /// count yields of script processes instead of state-changing yields of redo processes
    pub kill_scripts: bool,
    pub kill_fired: Option<String>,
    /// wake-up plan: the k-th time a redo process that waits in select/poll
    /// is chosen although it is ready, hold it back until nothing else can
    /// run, so that everything that can become ready before it looks does
    pub stall_at: Option<u64>,
    /// timed abort: SIGKILL the process group of top-level command `c<idx>`
    /// once the run has reached this scheduling step (whatever its processes
    /// are doing then -- typically waiting for a running script)
    pub kill_cmd_at: Option<(usize, u64)>,
    /// number of ready select/poll wake-ups of redo processes chosen so far
    pub wake_count: u64,
    pub stall_fired: Option<String>,
    /// output pipes played by the simulator: (read end, file the bytes go to, step at which the reader goes away)
    out_pipes: Vec<(RawFd, PathBuf, u64)>,
    pct_change_points: Vec<u64>,
    pub wake_sets: BTreeMap<String, u64>,
    pub record_events: bool,
    /// descriptors the driver wants observers to see (name, fd)
    pub watch_fds: Vec<(String, RawFd)>,
}

fn cstr(s: &str) -> CString {
    CString::new(s.as_bytes()).unwrap()
}

fn set_cloexec(fd: RawFd) {
    unsafe {
        let fl = libc::fcntl(fd, libc::F_GETFD);
        libc::fcntl(fd, libc::F_SETFD, fl | libc::FD_CLOEXEC);
    }
}

impl Sim {
    pub fn new(root: &Path, sock_path: &Path, seed: u64, knobs: Knobs) -> Result<Sim, SimError> {
        let _ = std::fs::remove_file(sock_path);
        let listener = unsafe {
            let fd = libc::socket(libc::AF_UNIX, libc::SOCK_SEQPACKET | libc::SOCK_CLOEXEC, 0);
            if fd < 0 {
                return Err(SimError::Harness("socket".into()));
            }
            let mut sa: libc::sockaddr_un = std::mem::zeroed();
            sa.sun_family = libc::AF_UNIX as u16;
            let p = sock_path.to_str().unwrap().as_bytes();
            if p.len() >= sa.sun_path.len() {
                return Err(SimError::Harness("socket path too long".into()));
            }
            for (i, b) in p.iter().enumerate() {
                sa.sun_path[i] = *b as libc::c_char;
            }
            if libc::bind(
                fd,
                &sa as *const _ as *const libc::sockaddr,
                std::mem::size_of::<libc::sockaddr_un>() as u32,
            ) < 0
            {
                return Err(SimError::Harness(format!(
                    "bind {}: {}",
                    sock_path.display(),
                    std::io::Error::last_os_error()
                )));
            }
            if libc::listen(fd, 64) < 0 {
                return Err(SimError::Harness("listen".into()));
            }
            fd
        };
        let mut rng = Rng::new(mix(&[seed, 0x5c4ed]));
        let mut pts = Vec::new();
        if knobs.policy == Policy::Pct {
            for _ in 0..knobs.pct_depth {
                pts.push(rng.range(1, 3000));
            }
        }
        Ok(Sim {
            root: root.to_path_buf(),
            sock_path: sock_path.to_path_buf(),
            listener,
            procs: Vec::new(),
            by_pid: HashMap::new(),
            dead_by_pid: HashMap::new(),
            expected: HashSet::new(),
            early_hello: HashSet::new(),
            pending_top: HashMap::new(),
            now: 0,
            step: 0,
            rng,
            seed,
            knobs,
            events: Vec::new(),
            decisions: Vec::new(),
            replay: None,
            replay_diverged: false,
            current: None,
            stalled: HashMap::new(),
            pipe_ids: HashMap::new(),
            ncmds: 0,
            env_base: Vec::new(),
            fault_counts: BTreeMap::new(),
            yields_by_class: BTreeMap::new(),
            sched_sig: 0xcbf29ce484222325,
            preemptions: 0,
            sc_count: 0,
            kill_at: None,
            kill_scripts: false,
            kill_fired: None,
            stall_at: None,
            kill_cmd_at: None,
            wake_count: 0,
            stall_fired: None,
            out_pipes: Vec::new(),
            pct_change_points: pts,
            wake_sets: BTreeMap::new(),
            record_events: true,
            watch_fds: Vec::new(),
        })
    }

    pub fn set_replay(&mut self, d: Vec<Decision>) {
        self.replay = Some(d);
    }

    fn log(&mut self, lid: &str, kind: EvKind, text: String) {
        if self.record_events {
            self.events.push(Ev {
                step: self.step,
                now: self.now,
                lid: lid.to_string(),
                kind,
                text,
            });
        }
    }

    /// Fingerprint of the run: every event with logical ids only.
    pub fn event_hash(&self) -> u64 {
        let mut h: u64 = 0xcbf29ce484222325;
        for e in &self.events {
            let s = format!("{}|{}|{:?}|{}", e.step, e.lid, e.kind, e.text);
            h = mix(&[h, hash_str(&s)]);
        }
        h
    }

    // ------------------------------------------------------------ spawning

    /// Start a top-level command; returns its command index.  The process is
    /// left parked at its first yield.
    pub fn spawn(&mut self, spec: &CmdSpec) -> Result<usize, SimError> {
        let idx = self.ncmds;
        self.ncmds += 1;
        let lid = format!("c{}", idx);
        let argv_c: Vec<CString> = spec.argv.iter().map(|s| cstr(s)).collect();
        let mut argv_p: Vec<*const libc::c_char> = argv_c.iter().map(|c| c.as_ptr()).collect();
        argv_p.push(std::ptr::null());
        let mut env: Vec<(String, String)> = self.env_base.clone();
        env.push((
            "PSIM_SOCK".into(),
            self.sock_path.to_str().unwrap().to_string(),
        ));
        env.push(("PSIM_ROOT".into(), self.root.to_str().unwrap().to_string()));
        for (k, v) in &spec.env {
            env.retain(|(k2, _)| k2 != k);
            env.push((k.clone(), v.clone()));
        }
        let env_c: Vec<CString> = env.iter().map(|(k, v)| cstr(&format!("{}={}", k, v))).collect();
        let mut env_p: Vec<*const libc::c_char> = env_c.iter().map(|c| c.as_ptr()).collect();
        env_p.push(std::ptr::null());
        let cwd_c = cstr(spec.cwd.to_str().unwrap());
        let out_c = cstr(spec.stdout.to_str().unwrap());
        let err_c = cstr(spec.stderr.to_str().unwrap());
        // resolve argv[0] through PATH in env
        let exe = resolve_exe(&spec.argv[0], &env);
        let exe_c = cstr(exe.to_str().unwrap());
        let mut out_pipe: Option<(RawFd, RawFd)> = None;
        if spec.reader_gone_at.is_some() {
            let mut fds = [0i32; 2];
            unsafe {
                libc::pipe2(fds.as_mut_ptr(), libc::O_CLOEXEC);
                let fl = libc::fcntl(fds[0], libc::F_GETFL);
                libc::fcntl(fds[0], libc::F_SETFL, fl | libc::O_NONBLOCK);
            }
            out_pipe = Some((fds[0], fds[1]));
        }
        let pid = unsafe { libc::fork() };
        if pid < 0 {
            return Err(SimError::Harness("fork failed".into()));
        }
        if pid == 0 {
            unsafe {
                // every top-level command is a process group of its own, as a
                // job started from a shell is: a tree kill is a signal to
                // that group (^C, timeout(1), a CI cancel)
                libc::setpgid(0, 0);
                // the run must not depend on how the harness was started: no
                // inherited ignored or blocked signals (a background job of a
                // non-interactive shell ignores SIGINT and SIGQUIT)
                for sig in 1..32 {
                    if sig != libc::SIGKILL && sig != libc::SIGSTOP {
                        libc::signal(sig, libc::SIG_DFL);
                    }
                }
                let mut set: libc::sigset_t = std::mem::zeroed();
                libc::sigemptyset(&mut set);
                libc::sigprocmask(libc::SIG_SETMASK, &set, std::ptr::null_mut());
                if libc::chdir(cwd_c.as_ptr()) < 0 {
                    libc::_exit(96);
                }
                let n = libc::open(b"/dev/null\0".as_ptr() as *const _, libc::O_RDONLY);
                libc::dup2(n, 0);
                let o = libc::open(
                    out_c.as_ptr(),
                    libc::O_WRONLY | libc::O_CREAT | libc::O_APPEND,
                    0o644,
                );
                libc::dup2(o, 1);
                let e = libc::open(
                    err_c.as_ptr(),
                    libc::O_WRONLY | libc::O_CREAT | libc::O_APPEND,
                    0o644,
                );
                libc::dup2(e, 2);
                if let Some((_, w)) = out_pipe {
                    libc::dup2(w, 1);
                    libc::dup2(w, 2);
                }
                for (src, dst) in &spec.fds {
                    libc::dup2(*src, *dst);
                }
                // close everything else above 2 that is not requested
                for fd in 3..1024 {
                    if !spec.fds.iter().any(|(_, d)| *d == fd) {
                        libc::close(fd);
                    }
                }
                libc::execve(exe_c.as_ptr(), argv_p.as_ptr(), env_p.as_ptr());
                libc::_exit(95);
            }
        }
        unsafe {
            libc::setpgid(pid, pid);
        }
        if let (Some((r, w)), Some(at)) = (out_pipe, spec.reader_gone_at) {
            unsafe { libc::close(w) };
            self.out_pipes.push((r, spec.stderr.clone(), at));
        }
        self.pending_top.insert(pid, (idx, lid));
        self.expected.insert(pid);
        self.pump()?;
        Ok(idx)
    }

    // ------------------------------------------------------------- pumping

    fn quiescent(&self) -> bool {
        self.expected.is_empty()
            && !self
                .procs
                .iter()
                .any(|p| p.state == PState::Running || p.state == PState::AwaitExec)
    }

    fn recv_msg(fd: RawFd) -> Option<String> {
        let mut buf = [0u8; 8192];
        loop {
            let n = unsafe { libc::recv(fd, buf.as_mut_ptr() as *mut _, buf.len(), 0) };
            if n > 0 {
                return Some(String::from_utf8_lossy(&buf[..n as usize]).into_owned());
            }
            if n == 0 {
                return None;
            }
            let e = std::io::Error::last_os_error();
            if e.raw_os_error() == Some(libc::EINTR) {
                continue;
            }
            return None;
        }
    }

    fn send_msg(fd: RawFd, s: &str) -> bool {
        loop {
            let n = unsafe {
                libc::send(
                    fd,
                    s.as_ptr() as *const _,
                    s.len(),
                    libc::MSG_NOSIGNAL,
                )
            };
            if n >= 0 {
                return true;
            }
            let e = std::io::Error::last_os_error();
            if e.raw_os_error() == Some(libc::EINTR) {
                continue;
            }
            return false;
        }
    }

    /// Process protocol messages until every live process is parked.
    fn pump(&mut self) -> Result<(), SimError> {
        let ev0 = self.events.len();
        let r = self.pump_inner();
        // messages of different processes arrive in an order the kernel picks;
        // the log keeps per-process order and sorts across processes
        self.events[ev0..].sort_by(|a, b| a.lid.cmp(&b.lid));
        self.resolve_pids(ev0);
        r
    }

    /// Replace `\u{1}<pid>\u{1}` placeholders by logical ids once every
    /// process of this pump has registered.
    fn resolve_pids(&mut self, ev0: usize) {
        let fix = |sim: &Sim, t: &str| -> Option<String> {
            if !t.contains('\u{1}') {
                return None;
            }
            let mut out = String::new();
            let mut it = t.split('\u{1}');
            let mut inside = false;
            while let Some(part) = it.next() {
                if inside {
                    match part.parse::<i32>() {
                        Ok(pid) => out.push_str(&sim.norm_pid(pid)),
                        Err(_) => out.push_str(part),
                    }
                } else {
                    out.push_str(part);
                }
                inside = !inside;
            }
            Some(out)
        };
        for k in ev0..self.events.len() {
            if let Some(n) = fix(self, &self.events[k].text) {
                self.events[k].text = n;
            }
        }
        for k in 0..self.procs.len() {
            let t = match self.procs[k].op.as_ref() {
                Some(o) => o.text.clone(),
                None => continue,
            };
            if let Some(n) = fix(self, &t) {
                self.procs[k].op.as_mut().unwrap().text = n;
            }
        }
    }

    fn pump_inner(&mut self) -> Result<(), SimError> {
        let t0 = Instant::now();
        while !self.quiescent() {
            let mut pfds: Vec<libc::pollfd> = Vec::new();
            pfds.push(libc::pollfd {
                fd: self.listener,
                events: libc::POLLIN,
                revents: 0,
            });
            let mut idxs: Vec<usize> = Vec::new();
            for (i, p) in self.procs.iter().enumerate() {
                if p.state == PState::Running && p.fd >= 0 {
                    pfds.push(libc::pollfd {
                        fd: p.fd,
                        events: libc::POLLIN,
                        revents: 0,
                    });
                    idxs.push(i);
                }
            }
            let r = unsafe { libc::poll(pfds.as_mut_ptr(), pfds.len() as u64, 1000) };
            if r < 0 {
                continue;
            }
            if r == 0 {
                // nothing for a second: check for processes that vanished
                // before ever connecting (exec failure of a top-level command)
                let gone: Vec<i32> = self
                    .expected
                    .iter()
                    .copied()
                    .filter(|pid| !pid_alive(*pid))
                    .collect();
                for pid in gone {
                    self.expected.remove(&pid);
                    if let Some((_, lid)) = self.pending_top.remove(&pid) {
                        let mut st = 0;
                        unsafe { libc::waitpid(pid, &mut st, libc::WNOHANG) };
                        return Err(SimError::Harness(format!(
                            "top-level command {} died before connecting (status {})",
                            lid, st
                        )));
                    }
                }
                if t0.elapsed() > Duration::from_secs(20) {
                    return Err(SimError::Harness(self.stall_report()));
                }
                continue;
            }
            if pfds[0].revents & libc::POLLIN != 0 {
                let fd = unsafe {
                    libc::accept4(
                        self.listener,
                        std::ptr::null_mut(),
                        std::ptr::null_mut(),
                        libc::SOCK_CLOEXEC,
                    )
                };
                if fd >= 0 {
                    match Sim::recv_msg(fd) {
                        Some(m) => self.on_hello(fd, &m)?,
                        None => unsafe {
                            libc::close(fd);
                        },
                    }
                }
            }
            for (k, i) in idxs.iter().enumerate() {
                let re = pfds[k + 1].revents;
                if re == 0 {
                    continue;
                }
                if self.procs[*i].state != PState::Running {
                    continue;
                }
                let fd = self.procs[*i].fd;
                match Sim::recv_msg(fd) {
                    Some(m) => self.on_msg(*i, &m)?,
                    None => self.on_eof(*i)?,
                }
            }
        }
        Ok(())
    }

    fn stall_report(&self) -> String {
        let mut s = String::from("simulation stalled; running processes:");
        for p in &self.procs {
            if p.state == PState::Running || p.state == PState::AwaitExec {
                let sc = std::fs::read_to_string(format!("/proc/{}/syscall", p.pid))
                    .unwrap_or_default();
                let wc =
                    std::fs::read_to_string(format!("/proc/{}/wchan", p.pid)).unwrap_or_default();
                s.push_str(&format!(
                    " [{} pid={} {} last_op={:?} syscall={} wchan={}]",
                    p.lid,
                    p.pid,
                    p.argv0,
                    p.op.as_ref().map(|o| o.text.clone()),
                    sc.trim(),
                    wc.trim()
                ));
            }
        }
        s.push_str(&format!(" expected_hello={:?}", self.expected));
        s
    }

    fn invalidate_ready(&mut self) {
        for p in self.procs.iter_mut() {
            if let Some(op) = p.op.as_mut() {
                op.ready = None;
            }
        }
    }

    fn on_hello(&mut self, fd: RawFd, m: &str) -> Result<(), SimError> {
        // H <kind> <pid> <ppid> <argv0>\t<target>\t<cwd>
        let mut it = m.splitn(5, ' ');
        let tag = it.next().unwrap_or("");
        if tag != "H" {
            return Err(SimError::Harness(format!("bad hello: {}", m)));
        }
        let kind = it.next().unwrap_or("").to_string();
        let pid: i32 = it.next().unwrap_or("0").parse().unwrap_or(0);
        let ppid: i32 = it.next().unwrap_or("0").parse().unwrap_or(0);
        let rest = it.next().unwrap_or("");
        let mut f = rest.split('\t');
        let argv0 = f.next().unwrap_or("?").to_string();
        let target = f.next().unwrap_or("").to_string();
        let cwd = f.next().unwrap_or("").to_string();
        set_cloexec(fd);
        self.invalidate_ready();
        if let Some(&i) = self.by_pid.get(&pid) {
            // exec of a known process
            let p = &mut self.procs[i];
            if p.fd >= 0 && p.fd != fd {
                unsafe { libc::close(p.fd) };
            }
            p.fd = fd;
            p.argv0 = argv0;
            p.target = target;
            p.cwd = cwd;
            p.exec_pending = false;
            p.nexec += 1;
            p.state = PState::Parked;
            p.itimer = None;
            p.op = Some(Op {
                class: Class::Hello,
                blocking: false,
                deadline: None,
                text: format!("hello exec {}", p.base_name()),
                ready: None,
            });
            let lid = p.lid.clone();
            let t = format!("exec {} target={}", self.procs[i].base_name(), self.procs[i].target);
            self.log(&lid, EvKind::Hello, t);
            return Ok(());
        }
        let (lid, parent, cmd) = if let Some((cmd, lid)) = self.pending_top.remove(&pid) {
            (lid, None, cmd)
        } else if let Some(&pi) = self.by_pid.get(&ppid) {
            let n = self.procs[pi].nchild;
            self.procs[pi].nchild += 1;
            (
                format!("{}.{}", self.procs[pi].lid, n),
                Some(pi),
                self.procs[pi].cmd,
            )
        } else {
            return Err(SimError::Harness(format!(
                "hello from unknown process pid={} ppid={} argv0={} kind={}",
                pid, ppid, argv0, kind
            )));
        };
        if !self.expected.remove(&pid) {
            self.early_hello.insert(pid);
        }
        let prio = self.rng.next_u64() | (1 << 63);
        let p = Proc {
            lid: lid.clone(),
            pid,
            fd,
            parent,
            nchild: 0,
            nexec: 0,
            state: PState::Parked,
            op: Some(Op {
                class: Class::Hello,
                blocking: false,
                deadline: None,
                text: format!("hello {}", kind),
                ready: None,
            }),
            argv0,
            target,
            cwd,
            cmd,
            itimer: None,
            exec_pending: false,
            exit_code: None,
            wait_status: None,
            killed_by_sim: false,
            born_step: self.step,
            died_step: None,
            prio,
        };
        let t = format!("{} {} target={}", kind, p.base_name(), p.target);
        self.procs.push(p);
        self.by_pid.insert(pid, self.procs.len() - 1);
        self.log(&lid, EvKind::Hello, t);
        Ok(())
    }

    fn norm_pid(&self, pid: i32) -> String {
        if let Some(&i) = self.by_pid.get(&pid) {
            return self.procs[i].lid.clone();
        }
        if let Some(&i) = self.dead_by_pid.get(&pid) {
            return self.procs[i].lid.clone();
        }
        if pid <= 0 {
            return format!("{}", pid);
        }
        "?".into()
    }

    fn pipe_id(&mut self, ino: &str) -> usize {
        let n = self.pipe_ids.len();
        *self.pipe_ids.entry(ino.to_string()).or_insert(n)
    }

    fn on_msg(&mut self, i: usize, m: &str) -> Result<(), SimError> {
        let tag = m.as_bytes().first().copied().unwrap_or(b'?');
        match tag {
            b'O' => {
                // O <dirty> <class> <blocking> <timeout_ns> <text>
                let mut it = m.splitn(6, ' ');
                it.next();
                let dirty = it.next().unwrap_or("0") == "1";
                let class = Class::parse(it.next().unwrap_or(""));
                let blocking = it.next().unwrap_or("0") == "1";
                let timeout: i64 = it.next().unwrap_or("-1").parse().unwrap_or(-1);
                let raw = it.next().unwrap_or("").to_string();
                let text = self.normalise(class, &raw);
                if dirty {
                    self.invalidate_ready();
                }
                let deadline = if timeout >= 0 {
                    Some(self.now + timeout as u64)
                } else {
                    None
                };
                let p = &mut self.procs[i];
                p.exec_pending = false;
                p.state = PState::Parked;
                if class == Class::Proc && text.starts_with("exit ") {
                    p.exit_code = text[5..].trim().parse().ok();
                }
                p.op = Some(Op {
                    class,
                    blocking,
                    deadline,
                    text: text.clone(),
                    ready: None,
                });
                let lid = p.lid.clone();
                self.log(&lid, EvKind::Op(class), text);
            }
            b'I' => {
                let body = &m[2.min(m.len())..];
                let mut w = body.split(' ');
                let what = w.next().unwrap_or("");
                let lid = self.procs[i].lid.clone();
                match what {
                    "forked" | "spawned" => {
                        let pid: i32 = w.next().unwrap_or("0").parse().unwrap_or(0);
                        if !self.early_hello.remove(&pid) {
                            self.expected.insert(pid);
                        }
                    }
                    "waited" => {
                        let pid: i32 = w.next().unwrap_or("0").parse().unwrap_or(0);
                        let st: i32 = w.next().unwrap_or("0").parse().unwrap_or(0);
                        let who = format!("\u{1}{}\u{1}", pid);
                        let idx = self
                            .by_pid
                            .get(&pid)
                            .or_else(|| self.dead_by_pid.get(&pid))
                            .copied();
                        if let Some(j) = idx {
                            self.procs[j].wait_status = Some(st);
                        }
                        self.log(&lid, EvKind::Info, format!("waited {} {}", who, st));
                    }
                    "itimer" => {
                        let val: u64 = w.next().unwrap_or("0").parse().unwrap_or(0);
                        let itv: u64 = w.next().unwrap_or("0").parse().unwrap_or(0);
                        self.procs[i].itimer = if val == 0 {
                            None
                        } else {
                            Some((self.now + val, itv))
                        };
                    }
                    "lockbusy" => {
                        self.log(&lid, EvKind::Info, body.to_string());
                    }
                    _ => {
                        self.log(&lid, EvKind::Info, body.to_string());
                    }
                }
            }
            _ => {
                return Err(SimError::Harness(format!(
                    "unexpected message from {}: {}",
                    self.procs[i].lid, m
                )));
            }
        }
        Ok(())
    }

    fn normalise(&mut self, class: Class, raw: &str) -> String {
        match class {
            Class::Pipe => {
                // read <fd> <ino> <n> | write <fd> <ino> <n> | select [..] | poll [..]
                let w: Vec<&str> = raw.split(' ').collect();
                if (w[0] == "read" || w[0] == "write") && w.len() >= 4 {
                    let id = self.pipe_id(w[2]);
                    return format!("{} fd{} pipe#{} {}", w[0], w[1], id, w[3]);
                }
                raw.to_string()
            }
            Class::Wait => {
                let w: Vec<&str> = raw.split(' ').collect();
                if w.len() >= 2 {
                    if let Ok(pid) = w[1].parse::<i32>() {
                        if pid > 0 {
                            return format!("{} \u{1}{}\u{1}", w[0], pid);
                        }
                    }
                }
                raw.to_string()
            }
            Class::Fsw | Class::Lock => {
                // temp names are random but seeded; keep them
                raw.to_string()
            }
            _ => raw.to_string(),
        }
    }

    fn on_eof(&mut self, i: usize) -> Result<(), SimError> {
        let p = &mut self.procs[i];
        unsafe { libc::close(p.fd) };
        p.fd = -1;
        if p.exec_pending {
            p.state = PState::AwaitExec;
            return Ok(());
        }
        self.finish_death(i)
    }

    fn finish_death(&mut self, i: usize) -> Result<(), SimError> {
        let pid = self.procs[i].pid;
        // wait until the kernel has released the process's files and locks
        let t0 = Instant::now();
        loop {
            match proc_state(pid) {
                None | Some('Z') | Some('X') => break,
                _ => {}
            }
            if t0.elapsed() > Duration::from_secs(10) {
                return Err(SimError::Harness(format!(
                    "process {} (pid {}) closed its connection but does not die",
                    self.procs[i].lid, pid
                )));
            }
            std::thread::yield_now();
        }
        let mut st = 0;
        let r = unsafe { libc::waitpid(pid, &mut st, libc::WNOHANG) };
        if r == pid {
            self.procs[i].wait_status = Some(st);
        }
        self.procs[i].state = PState::Dead;
        self.procs[i].op = None;
        self.procs[i].died_step = Some(self.step);
        self.by_pid.remove(&pid);
        self.dead_by_pid.insert(pid, i);
        self.stalled.remove(&i);
        if self.current == Some(i) {
            self.current = None;
        }
        self.invalidate_ready();
        let lid = self.procs[i].lid.clone();
        let t = match self.procs[i].status() {
            Some(s) => format!("status {}", s),
            None => "status ?".into(),
        };
        self.log(&lid, EvKind::Dead, t);
        Ok(())
    }

    // ---------------------------------------------------------- scheduling

    fn probe(&mut self, i: usize) -> Result<bool, SimError> {
        if let Some(r) = self.procs[i].op.as_ref().and_then(|o| o.ready) {
            return Ok(r);
        }
        let fd = self.procs[i].fd;
        if !Sim::send_msg(fd, "P") {
            return Err(SimError::Harness(format!(
                "probe send failed for {}",
                self.procs[i].lid
            )));
        }
        let m = Sim::recv_msg(fd).ok_or_else(|| {
            SimError::Harness(format!("probe: {} vanished while parked", self.procs[i].lid))
        })?;
        let ready = m.trim() == "R 1";
        if let Some(op) = self.procs[i].op.as_mut() {
            op.ready = Some(ready);
        }
        Ok(ready)
    }

    pub fn live_count(&self) -> usize {
        self.procs.iter().filter(|p| p.alive()).count()
    }

    pub fn cmd_alive(&self, cmd: usize) -> bool {
        // the top-level process of the command
        let lid = format!("c{}", cmd);
        self.procs.iter().any(|p| p.lid == lid && p.alive())
    }

    pub fn cmd_tree_alive(&self, cmd: usize) -> bool {
        self.procs.iter().any(|p| p.cmd == cmd && p.alive())
    }

    pub fn top_status(&self, cmd: usize) -> Option<i32> {
        let lid = format!("c{}", cmd);
        self.procs
            .iter()
            .find(|p| p.lid == lid)
            .and_then(|p| p.status())
    }

    fn enabled(&mut self) -> Result<Vec<(usize, char)>, SimError> {
        let mut v = Vec::new();
        for i in 0..self.procs.len() {
            if self.procs[i].state != PState::Parked {
                continue;
            }
            let (blocking, deadline, class) = {
                let op = self.procs[i].op.as_ref().unwrap();
                (op.blocking, op.deadline, op.class)
            };
            if !blocking {
                v.push((i, 'G'));
                continue;
            }
            let ready = if class == Class::Time {
                false
            } else {
                self.probe(i)?
            };
            if ready {
                v.push((i, 'G'));
            } else if deadline.map_or(false, |d| d <= self.now) {
                v.push((i, 'T'));
            } else if let Some((fire, _)) = self.procs[i].itimer {
                if fire <= self.now {
                    v.push((i, 'E'));
                }
            }
        }
        Ok(v)
    }

    fn next_deadline(&self) -> Option<u64> {
        let mut best: Option<u64> = None;
        for p in &self.procs {
            if p.state != PState::Parked {
                continue;
            }
            let op = p.op.as_ref().unwrap();
            if !op.blocking {
                continue;
            }
            let mut cands = Vec::new();
            if let Some(d) = op.deadline {
                cands.push(d);
            }
            if let Some((f, _)) = p.itimer {
                cands.push(f);
            }
            for c in cands {
                best = Some(best.map_or(c, |b| b.min(c)));
            }
        }
        best
    }

    fn class_slot(c: Class) -> usize {
        match c {
            Class::Hello | Class::Proc => 0,
            Class::Wait => 1,
            Class::Lock => 2,
            Class::Pipe => 3,
            Class::Time => 4,
            Class::Fsw => 5,
            Class::Event => 6,
        }
    }

    fn choose(&mut self, en: &[(usize, char)]) -> (usize, char) {
        // replay first
        if let Some(rp) = self.replay.as_ref() {
            let k = self.decisions.len();
            if k < rp.len() {
                let d = rp[k].clone();
                if let Some(&(i, v)) = en
                    .iter()
                    .find(|(i, v)| self.procs[*i].lid == d.p && *v == d.v)
                {
                    return (i, v);
                }
                if let Some(&(i, v)) = en.iter().find(|(i, _)| self.procs[*i].lid == d.p) {
                    self.replay_diverged = true;
                    return (i, v);
                }
                self.replay_diverged = true;
            }
            // tape exhausted or diverged: serial default
            return en[0];
        }
        match self.knobs.policy {
            Policy::Serial => en[0],
            Policy::Random => {
                if let Some(c) = self.current {
                    if let Some(&(i, v)) = en.iter().find(|(i, _)| *i == c) {
                        let cls = self.procs[c].op.as_ref().unwrap().class;
                        let pm = self.knobs.switch_pm[Sim::class_slot(cls)] as u64;
                        if en.len() == 1 || !self.rng.chance(pm, 1000) {
                            return (i, v);
                        }
                    }
                }
                let k = self.rng.below(en.len() as u64) as usize;
                en[k]
            }
            Policy::Pct => {
                if self.pct_change_points.contains(&self.step) {
                    if let Some(c) = self.current {
                        // demote the current process below everything else
                        self.procs[c].prio = self.rng.below(1 << 40);
                    }
                }
                *en.iter().max_by_key(|(i, _)| self.procs[*i].prio).unwrap()
            }
        }
    }

    fn is_state_changing(p: &Proc) -> bool {
        if !p.is_redo() {
            return false;
        }
        let op = match p.op.as_ref() {
            Some(o) => o,
            None => return false,
        };
        match op.class {
            Class::Fsw => true,
            Class::Lock => !op.text.contains(" rd "),
            Class::Proc => true,
            _ => false,
        }
    }

    pub fn kill_proc(&mut self, i: usize) -> Result<(), SimError> {
        let pid = self.procs[i].pid;
        self.procs[i].killed_by_sim = true;
        unsafe { libc::kill(pid, libc::SIGKILL) };
        // its connection reports EOF once it is gone
        let fd = self.procs[i].fd;
        let t0 = Instant::now();
        loop {
            let mut pfd = libc::pollfd {
                fd,
                events: libc::POLLIN,
                revents: 0,
            };
            let r = unsafe { libc::poll(&mut pfd, 1, 1000) };
            if r > 0 {
                match Sim::recv_msg(fd) {
                    None => break,
                    Some(_) => continue,
                }
            }
            if t0.elapsed() > Duration::from_secs(10) {
                return Err(SimError::Harness("killed process does not die".into()));
            }
        }
        unsafe { libc::close(fd) };
        self.procs[i].fd = -1;
        self.procs[i].exec_pending = false;
        self.finish_death(i)
    }

    /// The readers of the commands' output pipes: copy what has arrived, go
    /// away when their time has come.
    fn play_readers(&mut self) {
        use std::io::Write;
        let step = self.step;
        let mut gone = Vec::new();
        for (k, (fd, file, at)) in self.out_pipes.iter().enumerate() {
            let mut buf = [0u8; 65536];
            loop {
                let n = unsafe { libc::read(*fd, buf.as_mut_ptr() as *mut _, buf.len()) };
                if n <= 0 {
                    break;
                }
                if let Ok(mut f) = std::fs::OpenOptions::new().append(true).create(true).open(file) {
                    let _ = f.write_all(&buf[..n as usize]);
                }
            }
            if step >= *at {
                gone.push(k);
            }
        }
        for k in gone.into_iter().rev() {
            let (fd, _, at) = self.out_pipes.remove(k);
            unsafe { libc::close(fd) };
            *self.fault_counts.entry("output-reader-gone".into()).or_insert(0) += 1;
            self.log("-", EvKind::Fault, format!("output-reader-gone at step {}", at));
            self.invalidate_ready();
        }
    }

    /// SIGKILL to the process group of the top-level command that process `i`
    /// belongs to.  Processes of the command that have left the group live on.
    pub fn kill_group_of(&mut self, i: usize) -> Result<(), SimError> {
        let pgid = match proc_pgrp(self.procs[i].pid) {
            Some(g) => g,
            None => return self.kill_proc(i),
        };
        let members: Vec<usize> = (0..self.procs.len())
            .filter(|j| self.procs[*j].alive() && proc_pgrp(self.procs[*j].pid) == Some(pgid))
            .collect();
        for j in &members {
            self.procs[*j].killed_by_sim = true;
        }
        unsafe { libc::kill(-pgid, libc::SIGKILL) };
        for j in members {
            let fd = self.procs[j].fd;
            if fd >= 0 {
                let t0 = Instant::now();
                loop {
                    let mut pfd = libc::pollfd {
                        fd,
                        events: libc::POLLIN,
                        revents: 0,
                    };
                    let r = unsafe { libc::poll(&mut pfd, 1, 1000) };
                    if r > 0 && Sim::recv_msg(fd).is_none() {
                        break;
                    }
                    if t0.elapsed() > Duration::from_secs(10) {
                        return Err(SimError::Harness("killed process does not die".into()));
                    }
                }
                unsafe { libc::close(fd) };
                self.procs[j].fd = -1;
            }
            self.procs[j].exec_pending = false;
            self.finish_death(j)?;
        }
        Ok(())
    }

    pub fn kill_all(&mut self) -> Result<(), SimError> {
        let live: Vec<usize> = (0..self.procs.len())
            .filter(|i| self.procs[*i].alive())
            .collect();
        for i in &live {
            self.procs[*i].killed_by_sim = true;
            unsafe { libc::kill(self.procs[*i].pid, libc::SIGKILL) };
        }
        for i in live {
            let fd = self.procs[i].fd;
            if fd >= 0 {
                let t0 = Instant::now();
                loop {
                    let mut pfd = libc::pollfd {
                        fd,
                        events: libc::POLLIN,
                        revents: 0,
                    };
                    let r = unsafe { libc::poll(&mut pfd, 1, 1000) };
                    if r > 0 && Sim::recv_msg(fd).is_none() {
                        break;
                    }
                    if t0.elapsed() > Duration::from_secs(10) {
                        return Err(SimError::Harness("killed process does not die".into()));
                    }
                }
                unsafe { libc::close(fd) };
                self.procs[i].fd = -1;
            }
            self.procs[i].exec_pending = false;
            self.finish_death(i)?;
        }
        Ok(())
    }

    /// One scheduling step.  Precondition: quiescent.
    pub fn step(&mut self) -> Result<StepOutcome, SimError> {
        if self.live_count() == 0 {
            return Ok(StepOutcome::AllDead);
        }
        if self.step >= self.knobs.max_steps {
            return Ok(StepOutcome::StepLimit);
        }
        if !self.out_pipes.is_empty() {
            self.play_readers();
        }
        if let Some((ci, at)) = self.kill_cmd_at {
            if self.step >= at {
                self.kill_cmd_at = None;
                let lid = format!("c{}", ci);
                if let Some(i) = (0..self.procs.len())
                    .find(|i| self.procs[*i].lid == lid && self.procs[*i].alive())
                {
                    let what = format!(
                        "kill-tree {} (process group of command {}) at step {}",
                        self.procs[i].base_name(),
                        ci,
                        self.step
                    );
                    self.log(&lid, EvKind::Fault, what.clone());
                    self.kill_fired = Some(what);
                    *self.fault_counts.entry("kill-tree".into()).or_insert(0) += 1;
                    self.decisions.push(Decision { p: lid, v: 'K' });
                    self.kill_group_of(i)?;
                    self.step += 1;
                    return Ok(StepOutcome::Progress);
                }
            }
        }
        loop {
            let mut en = self.enabled()?;
            if en.is_empty() {
                match self.next_deadline() {
                    Some(d) if d > self.now => {
                        self.now = d;
                        self.log("-", EvKind::Jump, format!("{}", d));
                        continue;
                    }
                    Some(_) => {
                        // a deadline in the past that did not enable anything
                        // (itimer on a ready op): advance the itimers
                        self.now += self.knobs.step_cost_ns;
                        continue;
                    }
                    None => return Ok(StepOutcome::Deadlock),
                }
            }
            // stalls: drop stalled processes unless nothing else is enabled
            if !self.stalled.is_empty() {
                let step = self.step;
                self.stalled.retain(|_, until| *until > step);
                let filtered: Vec<(usize, char)> = en
                    .iter()
                    .copied()
                    .filter(|(i, _)| !self.stalled.contains_key(i))
                    .collect();
                if !filtered.is_empty() {
                    en = filtered;
                } else {
                    self.stalled.clear();
                }
            }
            // fault: maybe start a stall of a process sitting in select/poll
            if self.replay.is_none() && self.knobs.stall_pm > 0 {
                if self.rng.chance(self.knobs.stall_pm as u64, 1000) {
                    let cands: Vec<usize> = (0..self.procs.len())
                        .filter(|i| {
                            self.procs[*i].state == PState::Parked
                                && self.procs[*i].is_redo()
                                && self.procs[*i].op.as_ref().map_or(false, |o| {
                                    o.blocking
                                        && (o.text.starts_with("select")
                                            || o.text.starts_with("poll"))
                                })
                                && !self.stalled.contains_key(i)
                        })
                        .collect();
                    if !cands.is_empty() {
                        let v = cands[self.rng.below(cands.len() as u64) as usize];
                        let until = self.step + self.knobs.stall_steps as u64;
                        self.stalled.insert(v, until);
                        *self.fault_counts.entry("stall".into()).or_insert(0) += 1;
                        let lid = self.procs[v].lid.clone();
                        self.decisions.push(Decision {
                            p: lid.clone(),
                            v: 'S',
                        });
                        self.log(&lid, EvKind::Fault, "stall".into());
                        continue;
                    }
                }
            }
            if let Some(rp) = self.replay.as_ref() {
                // replayed stall decisions
                let k = self.decisions.len();
                if k < rp.len() && (rp[k].v == 'S' || rp[k].v == 'M') {
                    let d = rp[k].clone();
                    self.decisions.push(d.clone());
                    if let Some(v) = (0..self.procs.len())
                        .find(|i| self.procs[*i].lid == d.p && self.procs[*i].alive())
                    {
                        let until = if d.v == 'M' {
                            // the recorded wake-up plan fired here
                            self.stall_at = None;
                            self.stall_fired = Some(format!("replayed hold of {}", d.p));
                            u64::MAX
                        } else {
                            self.step + self.knobs.stall_steps as u64
                        };
                        self.stalled.insert(v, until);
                        let name = if d.v == 'M' { "stall-at-wakeup" } else { "stall" };
                        *self.fault_counts.entry(name.into()).or_insert(0) += 1;
                        self.log(&d.p, EvKind::Fault, name.into());
                    } else {
                        self.replay_diverged = true;
                    }
                    continue;
                }
            }
            let (i, verdict) = self.choose(&en);
            // wake-up plan
            if verdict == 'G'
                && self.procs[i].is_redo()
                && self.procs[i].op.as_ref().map_or(false, |o| {
                    o.blocking && (o.text.starts_with("select") || o.text.starts_with("poll"))
                })
            {
                if self.stall_at == Some(self.wake_count) && en.len() > 1 {
                    self.stall_at = None;
                    self.wake_count += 1;
                    self.stalled.insert(i, u64::MAX);
                    *self.fault_counts.entry("stall-at-wakeup".into()).or_insert(0) += 1;
                    let lid = self.procs[i].lid.clone();
                    let what = format!(
                        "hold {} at [{}] while {} other processes can run",
                        self.procs[i].base_name(),
                        self.procs[i].op.as_ref().unwrap().text,
                        en.len() - 1
                    );
                    self.stall_fired = Some(what);
                    self.decisions.push(Decision { p: lid.clone(), v: 'M' });
                    self.log(&lid, EvKind::Fault, "stall-at-wakeup".into());
                    continue;
                }
                self.wake_count += 1;
            }
            // crash-point plan
            let counts = if self.kill_scripts {
                self.procs[i].is_script()
                    && self.procs[i].op.as_ref().map_or(false, |o| o.class != Class::Hello)
            } else {
                Sim::is_state_changing(&self.procs[i])
            };
            if counts {
                if let Some((k, tree)) = self.kill_at {
                    if self.sc_count == k {
                        self.kill_at = None;
                        let what = format!(
                            "{} {} before [{}]",
                            if tree { "kill-tree" } else { "kill-proc" },
                            self.procs[i].base_name(),
                            self.procs[i].op.as_ref().unwrap().text
                        );
                        let lid = self.procs[i].lid.clone();
                        self.log(&lid, EvKind::Fault, what.clone());
                        self.kill_fired = Some(what);
                        *self
                            .fault_counts
                            .entry(if tree { "kill-tree" } else { "kill-proc" }.into())
                            .or_insert(0) += 1;
                        self.decisions.push(Decision { p: lid, v: 'K' });
                        if tree {
                            self.kill_group_of(i)?;
                        } else {
                            self.kill_proc(i)?;
                        }
                        self.sc_count += 1;
                        self.step += 1;
                        return Ok(StepOutcome::Progress);
                    }
                }
                self.sc_count += 1;
            }
            self.release(i, verdict)?;
            return Ok(StepOutcome::Progress);
        }
    }

    fn release(&mut self, i: usize, verdict: char) -> Result<(), SimError> {
        let (class, text) = {
            let op = self.procs[i].op.as_ref().unwrap();
            (op.class, op.text.clone())
        };
        if self.current != Some(i) {
            if self.current.is_some() {
                self.preemptions += 1;
                let role = hash_str(self.procs[i].base_name());
                self.sched_sig = mix(&[self.sched_sig, role, class as u64]);
            }
            self.current = Some(i);
        }
        *self.yields_by_class.entry(class.name()).or_insert(0) += 1;
        if verdict == 'E' {
            *self.fault_counts.entry("eintr".into()).or_insert(0) += 1;
            if let Some((fire, itv)) = self.procs[i].itimer {
                self.procs[i].itimer = if itv > 0 { Some((fire + itv, itv)) } else { None };
            }
        }
        if verdict == 'T' {
            *self.fault_counts.entry("timeout".into()).or_insert(0) += 1;
        }
        if class == Class::Proc && text.starts_with("exec ") {
            self.procs[i].exec_pending = true;
        }
        if class.affects_readiness() || verdict != 'G' {
            self.invalidate_ready();
        } else if let Some(op) = self.procs[i].op.as_mut() {
            op.ready = None;
        }
        if class == Class::Pipe && text.starts_with("select") && verdict == 'G' {
            // record which kinds of events woke this select together
            *self.wake_sets.entry(text.clone()).or_insert(0) += 0;
        }
        let lid = self.procs[i].lid.clone();
        self.decisions.push(Decision {
            p: lid.clone(),
            v: verdict,
        });
        self.log(&lid, EvKind::Go(verdict), String::new());
        let msg = if class == Class::Hello {
            let s = mix(&[
                self.seed,
                hash_str(&self.procs[i].lid),
                self.procs[i].nexec as u64,
            ]) | 1;
            format!("G {} {}", self.now, s)
        } else {
            format!("{} {}", verdict, self.now)
        };
        self.procs[i].state = PState::Running;
        if !Sim::send_msg(self.procs[i].fd, &msg) {
            return Err(SimError::Harness(format!(
                "cannot release {}",
                self.procs[i].lid
            )));
        }
        self.step += 1;
        self.now += self.knobs.step_cost_ns;
        self.pump()
    }

    /// Reap anything re-parented to us and record statuses.
    pub fn reap_orphans(&mut self) {
        loop {
            let mut st = 0;
            let r = unsafe { libc::waitpid(-1, &mut st, libc::WNOHANG) };
            if r <= 0 {
                break;
            }
            if let Some(&i) = self.dead_by_pid.get(&r) {
                if self.procs[i].wait_status.is_none() {
                    self.procs[i].wait_status = Some(st);
                }
            }
        }
    }

    pub fn shutdown(&mut self) {
        for (fd, _, _) in self.out_pipes.drain(..) {
            unsafe { libc::close(fd) };
        }
        let _ = self.kill_all();
        self.reap_orphans();
        for p in self.procs.iter_mut() {
            if p.fd >= 0 {
                unsafe { libc::close(p.fd) };
                p.fd = -1;
            }
        }
        if self.listener >= 0 {
            unsafe { libc::close(self.listener) };
            self.listener = -1;
        }
        let _ = std::fs::remove_file(&self.sock_path);
    }
}

impl Drop for Sim {
    fn drop(&mut self) {
        self.shutdown();
    }
}

fn pid_alive(pid: i32) -> bool {
    match proc_state(pid) {
        None | Some('Z') | Some('X') => false,
        _ => true,
    }
}

/// Process group of a live process (field 5 of /proc/<pid>/stat).
fn proc_pgrp(pid: i32) -> Option<i32> {
    let s = std::fs::read_to_string(format!("/proc/{}/stat", pid)).ok()?;
    let r = s.rfind(')')?;
    s[r + 1..].split_whitespace().nth(2)?.parse().ok()
}

fn proc_state(pid: i32) -> Option<char> {
    let s = std::fs::read_to_string(format!("/proc/{}/stat", pid)).ok()?;
    let r = s.rfind(')')?;
    s[r + 1..].trim_start().chars().next()
}

fn resolve_exe(name: &str, env: &[(String, String)]) -> PathBuf {
    if name.contains('/') {
        return PathBuf::from(name);
    }
    let path = env
        .iter()
        .find(|(k, _)| k == "PATH")
        .map(|(_, v)| v.clone())
        .unwrap_or_default();
    for d in path.split(':') {
        let c = Path::new(d).join(name);
        if c.exists() {
            return c;
        }
    }
    PathBuf::from(name)
}

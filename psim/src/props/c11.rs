//! C11 -- redo never overwrites or deletes files it did not produce.

use super::gen::*;
use super::oracle::*;
use super::*;
use crate::dsl::*;
use crate::model::Owner;
use crate::sim::{Class, EvKind};

pub struct C11;

const NAMES: [&str; 5] = ["a", "b.o", "sub/c.o", "sub/d", "e.x.o"];

/// A generated rule: `g.do` is produced by `g.do.do` from a template, and `g`
/// is built by it.  The user then edits `g.do` by hand; a build that *uses*
/// the edited rule, a change of the template and further builds follow.  The
/// evaluator does not interpret generated rules, so this family is judged by
/// the trace invariant and the bytes of the user's files only.
fn generated_rule_case(rng: &mut Rng, seed: u64) -> Case {
    let rules = vec![
        (
            "g.do.do".to_string(),
            Rule {
                version: 0,
                stmts: vec![
                    Stmt::IfChange(vec!["tmpl".into()]),
                    Stmt::Out { mode: OutMode::RuleText("ifchange,s0".into()), pad: 3 },
                ],
            },
        ),
        (
            "all.do".to_string(),
            Rule {
                version: 0,
                stmts: vec![Stmt::IfChange(vec!["g.do".into()]), Stmt::IfChange(vec!["g".into()])],
            },
        ),
    ];
    let mut sc = Scenario {
        family: "c11-generated-rule".into(),
        files: vec![
            ("s0".to_string(), source_content("s0", 0)),
            ("tmpl".to_string(), source_content("tmpl", 0)),
        ],
        rules,
        ..Default::default()
    };
    let build = |rng: &mut Rng, sc: &mut Scenario, t: &str| {
        let prog = if rng.chance(1, 2) { "redo" } else { "redo-ifchange" };
        let c = redo_cmd(rng, prog, &[t.to_string()], 2, 150);
        sc.history.push(Step::Cmds(vec![c]));
    };
    build(rng, &mut sc, "all");
    let edited = |ver: u32| Rule {
        version: ver,
        stmts: vec![Stmt::IfChange(vec!["s0".into()])],
    };
    let mut tv = 0;
    let mut ever = 50;
    for _ in 0..rng.range(1, 2) {
        // the user edits the generated rule by hand ...
        ever += 1;
        sc.history.push(Step::SetRule { path: "g.do".into(), rule: Some(edited(ever)) });
        // ... and the edited rule is used before anything looks at it as a target
        if rng.chance(2, 3) {
            build(rng, &mut sc, "g");
        }
        if rng.chance(1, 2) {
            sc.history.push(Step::Write { path: "s0".into(), bytes: source_content("s0", ever) });
            build(rng, &mut sc, "g");
        }
        tv += 1;
        sc.history.push(Step::Write { path: "tmpl".into(), bytes: source_content("tmpl", tv) });
        build(rng, &mut sc, "all");
        if rng.chance(1, 2) {
            build(rng, &mut sc, "g.do");
        }
    }
    if rng.chance(1, 2) {
        // the user removes the rule: redo generates it again
        sc.history.push(Step::SetRule { path: "g.do".into(), rule: None });
        build(rng, &mut sc, "all");
    }
    Case {
        property: "C11".into(),
        seed,
        scenario: sc,
        knobs: Knobs::draw(rng),
        opts: PlayOpts {
            record_events: true,
            ..Default::default()
        },
        meta: BTreeMap::new(),
    }
}

impl Property for C11 {
    fn id(&self) -> &'static str {
        "C11"
    }
    fn runs(&self, tier: Tier) -> u64 {
        match tier {
            Tier::Quick => 2000,
            Tier::Thorough => 40000,
        }
    }
    fn rule(&self) -> &'static str {
        "six scenarios in seven: names matched by a specific rule, by default.o.do in the root (also for files in sub/) and by \
         sub/default.do; histories of 4-10 steps alternating builds (redo and redo-ifchange of one or \
         two names, -j1..3) with the user creating a file under such a name, overwriting a generated \
         target by hand, removing it again, and editing sources, so that files change role between \
         source and target several times; in every fifth scenario one build is SIGKILLed part-way (process \
         or tree) and the user writes a file right afterwards; oracle: no redo process issues rename-onto, unlink, \
         create/truncate-open or truncate on a path the model marks user-owned (trace invariant at the \
         libc seam), (inode, bytes) of every user-owned file are the same before and after every \
         command, no script runs for a user-owned name, a requested user-modified generated file is \
         reported ('you modified it'/'not redoing'), after the user removes the file the rule builds \
         it again, from-scratch freshness of what was requested; non-trivial = >=1 script and >=1 \
         user-owned file under a rule-matched name; one in seven: a generated rule (g.do produced by g.do.do from a template, g built by it) that the user edits by hand, uses, and later removes, judged by the trace invariant only; distinct = (scenario, preemption signature)"
    }
    fn generate(&self, rng: &mut Rng, seed: u64, _tier: Tier, index: u64) -> Case {
        if index % 7 == 6 {
            return generated_rule_case(rng, seed);
        }
        let files = vec![("s0".to_string(), source_content("s0", 0))];
        let mut rules: Vec<(String, Rule)> = Vec::new();
        let r = |deps: Vec<&str>| Rule {
            version: 0,
            stmts: vec![Stmt::IfChange(deps.iter().map(|s| s.to_string()).collect())],
        };
        // root rules name s0 from the root, sub/default.do from sub/
        rules.push(("a.do".into(), r(vec!["s0", "b.o"])));
        rules.push(("default.o.do".into(), r(vec!["s0"])));
        rules.push(("sub/default.do".into(), r(vec!["../s0"])));
        let mut sc = Scenario {
            family: "c11".into(),
            dirs: vec!["sub".into()],
            files,
            rules,
            ..Default::default()
        };
        let mut uver = 0u32;
        let mut sver = 0u32;
        let steps = rng.range(4, 10);
        let build = |rng: &mut Rng, sc: &mut Scenario| {
            let mut ts = vec![rng.pick(&NAMES).to_string()];
            if rng.chance(1, 3) {
                ts.push(rng.pick(&NAMES).to_string());
            }
            let prog = if rng.chance(1, 2) { "redo" } else { "redo-ifchange" };
            let c = redo_cmd(rng, prog, &ts, 3, 150);
            sc.history.push(Step::Cmds(vec![c]));
        };
        if rng.chance(1, 2) {
            // a user file exists under a rule-matched name from the start
            let n = rng.pick(&NAMES).to_string();
            sc.files.push((n.clone(), format!("user {} v0\n", n).into_bytes()));
        }
        build(rng, &mut sc);
        let mut since = 0;
        for _ in 0..steps {
            let x = rng.below(100);
            if since >= 2 || x < 40 {
                build(rng, &mut sc);
                since = 0;
            } else if x < 65 {
                let n = rng.pick(&NAMES).to_string();
                uver += 1;
                if uver % 3 == 0 {
                    // an edit that keeps the size (one byte changed), made
                    // right after the build: only the mtime gives it away
                    sc.history.push(Step::Tweak {
                        path: n.clone(),
                        in_place: rng.chance(1, 2),
                    });
                } else {
                    sc.history.push(Step::Write {
                        path: n.clone(),
                        bytes: format!("user {} v{}\n", n, uver).into_bytes(),
                    });
                }
                since += 1;
            } else if x < 85 {
                let n = rng.pick(&NAMES).to_string();
                sc.history.push(Step::Remove { path: n });
                since += 1;
            } else {
                sver += 1;
                sc.history.push(Step::Write {
                    path: "s0".into(),
                    bytes: source_content("s0", sver),
                });
                since += 1;
            }
        }
        build(rng, &mut sc);
        let mut opts = PlayOpts {
            record_events: true,
            ..Default::default()
        };
        let mut meta = BTreeMap::new();
        if index % 5 == 4 {
            // one of the builds (not the last) is killed part-way -- the process
            // or the whole tree --, and the user keeps creating and editing files
            // afterwards: an interrupted build gives redo no right to a file the
            // user writes later
            let builds: Vec<usize> = sc
                .history
                .iter()
                .enumerate()
                .filter(|(_, s)| matches!(s, Step::Cmds(_)))
                .map(|(i, _)| i)
                .collect();
            if builds.len() >= 2 {
                let gi = builds[rng.below(builds.len() as u64 - 1) as usize];
                opts.kill_at = Some((gi, rng.range(5, 250), rng.chance(1, 2)));
                meta.insert("killed_group".to_string(), serde_json::json!(gi));
                // right after the kill the user writes one of the names by hand
                let n = rng.pick(&NAMES).to_string();
                sc.history.insert(
                    gi + 1,
                    Step::Write {
                        path: n.clone(),
                        bytes: format!("user {} after the kill\n", n).into_bytes(),
                    },
                );
            }
        }
        Case {
            property: "C11".into(),
            seed,
            scenario: sc,
            knobs: Knobs::draw(rng),
            opts,
            meta,
        }
    }
    fn nontrivial(&self, _case: &Case, rec: &RunRecord) -> bool {
        let script = rec
            .groups
            .iter()
            .any(|g| g.events.iter().any(|e| e.text.starts_with("do-begin")));
        let user_under_rule = rec.world_after.iter().any(|w| {
            NAMES
                .iter()
                .any(|n| w.files.get(*n).map_or(false, |f| f.owner == Owner::User))
        });
        script && user_under_rule
    }
    fn check(&self, case: &Case, rec: &RunRecord, _obs: &dyn Observer) -> Vec<Violation> {
        let mut v = Vec::new();
        let _ = case;
        for g in &rec.groups {
            let idx = g.step_idx;
            let world = &rec.world_after[idx];
            let cmd = &g.cmds[0];
            // user-owned files as of this command (the user does not act during it)
            let user: Vec<(&String, &Vec<u8>)> = world
                .files
                .iter()
                .filter(|(_, f)| f.owner == Owner::User)
                .map(|(p, f)| (p, &f.bytes))
                .collect();
            // After a kill, a target whose *re*build was interrupted is in an
            // undefined state and is rebuilt by the next run (the BUILDING stamp of
            // fix 9f1f483); an edit the user makes to such a file after the kill is
            // not protected.  Names redo had never generated before the kill are.
            let killed = case.opts.kill_at.map(|(k, _, _)| k);
            let exempt: std::collections::BTreeSet<String> = match killed {
                Some(k) if idx > k => rec.db_after[..k]
                    .iter()
                    .rev()
                    .flatten()
                    .next()
                    .map(|db| db.files.iter().filter(|(_, f)| f.0).map(|(n, _)| n.clone()).collect())
                    .unwrap_or_default(),
                _ => Default::default(),
            };
            let user: Vec<(&String, &Vec<u8>)> = user.into_iter().filter(|(p, _)| !exempt.contains(*p)).collect();
            let is_user = |p: &str| user.iter().any(|(u, _)| u.as_str() == p) || world.rules.contains_key(p);
            // trace invariant
            for e in &g.events {
                if let EvKind::Op(Class::Fsw) = e.kind {
                    let redo = g.procs.iter().any(|p| p.lid == e.lid && p.name.starts_with("redo"));
                    if !redo {
                        continue;
                    }
                    let w: Vec<&str> = e.text.split(' ').collect();
                    let hit = match w[0] {
                        "rename" if w.len() >= 3 => is_user(w[2]) || is_user(w[1]),
                        "unlink" | "truncate" if w.len() >= 2 => is_user(w[1]),
                        "open" if w.len() >= 3 => is_user(w[1]) && (w[2].contains('t') || w[2].contains('w')),
                        _ => false,
                    };
                    if hit {
                        v.push(Violation {
                            kind: "touched-user-file".into(),
                            detail: format!(
                                "history step {} {:?}: redo process {} issued `{}` on a file it did not produce",
                                idx, cmd.argv, e.lid, e.text
                            ),
                        });
                    }
                }
            }
            // bytes and inode unchanged
            for (p, b) in &user {
                match rec.fs_after[idx].get(*p) {
                    Some(s) if &&s.bytes == b => {
                        if idx > 0 {
                            if let Some(prev) = rec.fs_after[idx - 1].get(*p) {
                                if prev.ino != s.ino {
                                    v.push(Violation {
                                        kind: "replaced-user-file".into(),
                                        detail: format!("history step {} {:?}: user file {} was replaced (inode changed) although its bytes are the same", idx, cmd.argv, p),
                                    });
                                }
                            }
                        }
                    }
                    Some(s) => v.push(Violation {
                        kind: "modified-user-file".into(),
                        detail: format!(
                            "history step {} {:?}: user file {} changed from {:?} to {:?}",
                            idx,
                            cmd.argv,
                            p,
                            String::from_utf8_lossy(b),
                            first_lines(&String::from_utf8_lossy(&s.bytes), 3)
                        ),
                    }),
                    None => v.push(Violation {
                        kind: "removed-user-file".into(),
                        detail: format!("history step {} {:?}: user file {} is gone", idx, cmd.argv, p),
                    }),
                }
            }
            if !judgeable(g) {
                continue;
            }
            // no script for a user-owned name
            for r in do_runs(g) {
                if is_user(&r.target) {
                    v.push(Violation {
                        kind: "script-ran-for-user-file".into(),
                        detail: format!("history step {} {:?}: the rule {} was run for {} although that file was written by the user", idx, cmd.argv, r.rule, r.target),
                    });
                }
            }
            let req: Vec<String> = cmd
                .targets()
                .iter()
                .filter_map(|a| arg_path(&cmd.cwd, a))
                .collect();
            // a requested generated file that the user overwrote in place is reported
            for t in &req {
                if !is_user(t) {
                    continue;
                }
                // the user's latest write of t, and what t was just before it
                let mut overwrote_generated = false;
                for (k, st) in case.scenario.history.iter().enumerate().take(idx) {
                    match st {
                        Step::Tweak { path, .. } if path == t => {
                            // a no-op on an absent file; otherwise like a write
                            if k > 0 && rec.world_after[k - 1].files.contains_key(t) {
                                overwrote_generated = overwrote_generated
                                    || rec.world_after[k - 1]
                                        .files
                                        .get(t)
                                        .map_or(false, |f| f.owner == Owner::Redo);
                            }
                        }
                        Step::Write { path, .. } if path == t => {
                            overwrote_generated = k > 0
                                && rec.world_after[k - 1]
                                    .files
                                    .get(t)
                                    .map_or(false, |f| f.owner == Owner::Redo);
                        }
                        Step::Remove { path } if path == t => overwrote_generated = false,
                        _ => {}
                    }
                }
                // (after a kill the record of an interrupted first build does not
                // say "generated": no warning is owed)
                if overwrote_generated && !killed.map_or(false, |k| idx >= k) {
                    let e = &g.results[0].stderr;
                    if !(e.contains("you modified it") || e.contains("not redoing")) {
                        v.push(Violation {
                            kind: "override-not-reported".into(),
                            detail: format!(
                                "history step {} {:?}: {} is a generated target the user overwrote by hand; the command left it alone but printed no warning; stderr: {}",
                                idx, cmd.argv, t, c09::tail(e, 300)
                            ),
                        });
                    }
                }
            }
            // what an interrupted build leaves behind is C10's business; after a
            // kill only the user's files are judged here
            let after_kill = killed.map_or(false, |k| idx >= k);
            if g.results[0].status == Some(0) && !after_kill && case.scenario.family != "c11-generated-rule" {
                v.extend(freshness(rec, idx, &req));
                // after the user removed a file, the rule builds it again
                for t in &req {
                    if !is_user(t) && world.rule_for(t).is_some() && !rec.fs_after[idx].contains_key(t) {
                        if matches!(world.eval(t), Ok(crate::model::Built::Bytes(_))) {
                            v.push(Violation {
                                kind: "not-rebuilt-after-removal".into(),
                                detail: format!("history step {} {:?}: {} has a rule and no user file, but was not produced", idx, cmd.argv, t),
                            });
                        }
                    }
                }
            }
        }
        v
    }
    fn probes(&self, _case: &Case, rec: &RunRecord) -> BTreeMap<String, u64> {
        let mut m = BTreeMap::new();
        for g in &rec.groups {
            let e = &g.results[0].stderr;
            if e.contains("you modified it") {
                *m.entry("override_warning_seen".to_string()).or_insert(0) += 1;
            }
            if e.contains("not redoing") || e.contains("not marked as generated") {
                *m.entry("refused_existing_source".to_string()).or_insert(0) += 1;
            }
        }
        // role changes
        for n in NAMES.iter() {
            let mut last: Option<Owner> = None;
            for w in &rec.world_after {
                let cur = w.files.get(*n).map(|f| f.owner.clone());
                if cur.is_some() && last.is_some() && cur != last {
                    *m.entry("role_changes".to_string()).or_insert(0) += 1;
                }
                if cur.is_some() {
                    last = cur;
                }
            }
        }
        m
    }
}

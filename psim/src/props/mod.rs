//! Property checks: one generator + oracle per property id.

use crate::driver::*;
use crate::rng::Rng;
use crate::sim::Knobs;
use serde::{Deserialize, Serialize};
use std::collections::BTreeMap;

pub mod c01;
pub mod c02;
pub mod c03;
pub mod c04;
pub mod c05;
pub mod c06;
pub mod c07;
pub mod c08;
pub mod c09;
pub mod c10;
pub mod c11;
pub mod c12;
pub mod c13;
pub mod c14;
pub mod c15;
pub mod c16;
pub mod c17;
pub mod c18;
pub mod gen;
pub mod oracle;
pub mod spec;

#[derive(Clone, Debug, Serialize, Deserialize)]
pub struct Case {
    pub property: String,
    pub seed: u64,
    pub scenario: Scenario,
    pub knobs: Knobs,
    #[serde(default)]
    pub opts: PlayOpts,
    /// free-form per-property parameters the oracle needs
    #[serde(default)]
    pub meta: BTreeMap<String, serde_json::Value>,
}

#[derive(Clone, Debug, Serialize, Deserialize)]
pub struct Violation {
    /// stable class of the violation (used by minimisation and known findings)
    pub kind: String,
    pub detail: String,
}

#[derive(Clone, Copy, Debug, PartialEq, Eq)]
pub enum Tier {
    Quick,
    Thorough,
}

pub trait Property: Sync {
    fn id(&self) -> &'static str;
    fn level(&self) -> &'static str {
        "exploration"
    }
    /// number of simulated runs per tier
    fn runs(&self, tier: Tier) -> u64;
    fn generate(&self, rng: &mut Rng, seed: u64, tier: Tier, index: u64) -> Case;
    /// like `generate`, with the batch's VERIF_SEED for properties whose
    /// scenario is shared by several run indices
    fn generate_with_base(
        &self,
        _base: u64,
        rng: &mut Rng,
        seed: u64,
        tier: Tier,
        index: u64,
    ) -> Case {
        self.generate(rng, seed, tier, index)
    }
    fn observer(&self, _case: &Case) -> Box<dyn Observer> {
        Box::new(NoObserver)
    }
    /// judge a finished run
    fn check(&self, case: &Case, rec: &RunRecord, obs: &dyn Observer) -> Vec<Violation>;
    /// an optional second scenario (e.g. the serial build) played in the same
    /// worker; its record is handed to `check_with_reference`
    fn reference(&self, _case: &Case) -> Option<(Scenario, Knobs, PlayOpts)> {
        None
    }
    fn check_with_reference(
        &self,
        _case: &Case,
        _rec: &RunRecord,
        _reference: &RunRecord,
    ) -> Vec<Violation> {
        Vec::new()
    }
    /// further cases to play in the same job once the first run is known
    /// (crash-point enumeration); each is judged by `check`
    fn follow_ups(&self, _case: &Case, _first: &RunRecord) -> Vec<Case> {
        Vec::new()
    }
    /// extra per-run probes (rare-branch counters) for the evidence file
    fn probes(&self, _case: &Case, _rec: &RunRecord) -> BTreeMap<String, u64> {
        BTreeMap::new()
    }
    fn rule(&self) -> &'static str;
    fn assumptions(&self) -> Vec<String> {
        Vec::new()
    }
    /// what makes a run non-trivial for this property
    fn nontrivial(&self, _case: &Case, rec: &RunRecord) -> bool {
        rec.groups.iter().any(|g| g.preemptions > 0)
            && rec
                .groups
                .iter()
                .any(|g| g.events.iter().any(|e| e.text.starts_with("do-begin")))
    }
    /// signature for the distinct count
    fn signature(&self, case: &Case, rec: &RunRecord) -> u64 {
        let mut h = crate::rng::hash_str(&serde_json::to_string(&case.scenario).unwrap_or_default());
        for g in &rec.groups {
            h = crate::rng::mix(&[h, g.sched_sig]);
        }
        h
    }
}

pub fn all() -> Vec<Box<dyn Property>> {
    vec![
        Box::new(c01::C01),
        Box::new(c02::C02),
        Box::new(c03::C03),
        Box::new(c04::C04),
        Box::new(c05::C05),
        Box::new(c06::C06),
        Box::new(c07::C07),
        Box::new(c08::C08),
        Box::new(c09::C09),
        Box::new(c10::C10),
        Box::new(c11::C11),
        Box::new(c12::C12),
        Box::new(c13::C13),
        Box::new(c14::C14),
        Box::new(c15::C15),
        Box::new(c16::C16),
        Box::new(c17::C17),
        Box::new(c18::C18),
    ]
}

pub fn find(id: &str) -> Option<Box<dyn Property>> {
    all().into_iter().find(|p| p.id() == id)
}

//! C10 -- a kill at any moment is recovered from by simply running redo again.

use super::gen::*;
use super::oracle::*;
use super::*;
use crate::dsl::*;

pub struct C10;

/// crash points of one scenario are spread over this many jobs
const SLICES: u64 = 8;
/// timed aborts per slice
const TIMED: u64 = 4;

fn scenario_for(base: u64, scen: u64, small: bool) -> (Scenario, usize, Vec<String>) {
    let mut rng = Rng::new(crate::rng::mix(&[base, scen, 0xc10]));
    let rng = &mut rng;
    let mut p = GraphParams::small(rng);
    // (the quick tier keeps the graphs small: every crash point is replayed)
    p.n_targets = if small { rng.range(2, 3) as usize } else { rng.range(2, 5) as usize };
    p.n_sources = rng.range(1, 2) as usize;
    p.csum_pm = 400;
    p.always_pm = 0;
    p.max_work_ms = *rng.pick(&[0, 5]);
    p.out_file_pm = 500;
    let mut g = gen_graph(rng, &p);
    // stratified: even scenarios start from an empty project (the killed
    // command creates the state database) and contain at least one
    // checksummed target; odd scenarios kill a rebuild of generated files
    // scenario kinds: 0 = first build of an empty project, 1 = rebuild after a
    // source edit, 2 = rebuild after a source edit with one generated file removed
    let fresh = scen % 3 == 0;
    let with_removed = scen % 3 == 2;
    if fresh && !g.csum.iter().any(|c| *c) && g.targets.len() >= 2 {
        let i = rng.below(g.targets.len() as u64 - 1) as usize;
        g.rules[i].1.stmts.push(Stmt::Stamp { only: Vec::new() });
        g.csum[i] = true;
    }
    let mut sc = g.scenario("c10");
    if !fresh {
        // previously generated files exist and an input changed
        sc.history
            .push(Step::Cmds(vec![redo_cmd(rng, "redo-ifchange", &[g.top()], 2, 0)]));
        let s = rng.pick(&g.sources).clone();
        sc.history.push(Step::Write {
            path: s.clone(),
            bytes: source_content(&s, 1),
        });
        if with_removed {
            // a generated file was removed as well: it is rebuilt from a record
            // that says "generated" although no file is there
            sc.history.push(Step::Remove { path: rng.pick(&g.targets).clone() });
        }
    }
    let build_group = sc.history.len();
    let prog = if rng.chance(1, 2) { "redo" } else { "redo-ifchange" };
    let log_pm = *rng.pick(&[0u64, 1000]);
    sc.history
        .push(Step::Cmds(vec![redo_cmd(rng, prog, &[g.top()], 3, log_pm)]));
    // recovery, then an edit and a rebuild; with log capture in every other
    // scenario (what a killed run leaves under .redo/ must not block the logs
    // of later builds either)
    let targets = vec![g.top()];
    let rlog = if scen % 2 == 1 { "1" } else { "0" };
    sc.history.push(Step::Cmds(vec![Cmd {
        env: vec![("REDO_LOG".into(), rlog.into())],
        ..Cmd::new(&["redo-ifchange", &g.top()])
    }]));
    let s = g.sources[0].clone();
    sc.history.push(Step::Write {
        path: s.clone(),
        bytes: source_content(&s, 7),
    });
    sc.history.push(Step::Cmds(vec![Cmd {
        env: vec![("REDO_LOG".into(), rlog.into())],
        ..Cmd::new(&["redo-ifchange", &g.top()])
    }]));
    (sc, build_group, targets)
}

/// Which not-yet-recorded build results were in flight when the kill hit:
/// `rename-commit:<target>` = the builder had renamed the new file into place
/// but not yet released the target (its recording transaction may not have
/// committed); `stamp-commit:<target>` = redo-stamp had written the new
/// checksum for the target while its builder had not recorded the result.
pub fn open_windows(g: &GroupRec) -> Vec<String> {
    use crate::sim::{Class, EvKind};
    let mut out = Vec::new();
    let kill = match g.events.iter().find(|e| matches!(e.kind, EvKind::Fault) && e.text.starts_with("kill-")) {
        Some(k) => k,
        None => return out,
    };
    let tree = kill.text.starts_with("kill-tree");
    let fids = c06::job_lock_bytes(g);
    for r in do_runs(g) {
        let p = match c06::parent_lid(&r.lid) {
            Some(p) => p.to_string(),
            None => continue,
        };
        if !tree && kill.lid != p {
            continue;
        }
        let fid = match fids.get(&r.lid) {
            Some(f) => f.clone(),
            None => continue,
        };
        let mut renamed = false;
        let mut stamped = false;
        let mut released = false;
        let sub = format!("{}.", r.lid);
        for e in g.events.iter().filter(|e| e.step >= r.begin && e.step <= kill.step) {
            match &e.kind {
                EvKind::Op(Class::Fsw) if e.lid == p && e.text.starts_with("rename ") => {
                    let w: Vec<&str> = e.text.split(' ').collect();
                    if w.len() >= 3 && w[2] == r.target {
                        // the rename is logged when the process parks on it; it has
                        // happened once a later event of the same process exists
                        renamed = g.events.iter().any(|x| x.lid == p && x.step > e.step && x.step <= kill.step && !matches!(x.kind, EvKind::Go(_)));
                    }
                }
                EvKind::Op(Class::Fsw) if e.lid.starts_with(&sub) && e.text.starts_with("write .redo/db.sqlite3-wal") => {
                    let is_stamp = g.procs.iter().any(|q| q.lid == e.lid && q.name == "redo-stamp");
                    if is_stamp {
                        stamped = true;
                    }
                }
                EvKind::Op(Class::Lock) if e.lid == p => {
                    let w: Vec<&str> = e.text.split(' ').collect();
                    if w.len() >= 5 && w[1] == ".redo/locks" && w[2] == "un" && w[3] == fid {
                        released = true;
                    }
                }
                _ => {}
            }
        }
        if released {
            continue;
        }
        if renamed {
            out.push(format!("rename-commit:{}", r.target));
        } else if stamped {
            out.push(format!("stamp-commit:{}", r.target));
        }
    }
    out
}

impl Property for C10 {
    fn id(&self) -> &'static str {
        "C10"
    }
    fn level(&self) -> &'static str {
        "fault_enumeration"
    }
    fn runs(&self, tier: Tier) -> u64 {
        match tier {
            // a job = one scenario x one slice of its crash points (plus the fault-free run)
            Tier::Quick => 3 * SLICES,
            Tier::Thorough => 24 * SLICES,
        }
    }
    fn rule(&self) -> &'static str {
        "per scenario (2-5 targets incl. checksummed ones; in turn a first build, a rebuild of generated files after a source edit, and such a rebuild with one generated file removed; one build \
         under a fixed seeded schedule) a fault-free run records the M state-changing libc calls of \
         redo processes (open/create, write to the database and its WAL, rename, unlink, lock, fork, \
         exec, exit); then for every k in 0..M and scope in {that process, whole tree} the same \
         schedule is replayed and SIGKILL delivered immediately before call k (all k enumerated, \
         spread over 8 jobs per scenario); in addition 32 timed aborts per scenario: SIGKILL to the \
         command's process group at scheduling steps spread evenly over the recorded run (scripts \
         running, redo waiting); oracle: the following plain `redo-ifchange` terminates, \
         exits 0, leaves every target equal to the from-scratch evaluator, prints no override warning \
         and leaves no temp file; after a further source edit the rebuild again yields fresh targets; \
         non-trivial = the kill fired; distinct = (scenario, crash point, scope)"
    }
    fn generate(&self, rng: &mut Rng, seed: u64, tier: Tier, index: u64) -> Case {
        self.generate_with_base(20260929, rng, seed, tier, index)
    }
    fn generate_with_base(&self, base: u64, rng: &mut Rng, _seed: u64, tier: Tier, index: u64) -> Case {
        let scen = index / SLICES;
        let slice = index % SLICES;
        let (sc, build_group, targets) = scenario_for(base, scen, tier == Tier::Quick);
        let mut meta = BTreeMap::new();
        meta.insert("scenario".into(), serde_json::json!(scen));
        meta.insert("slice".into(), serde_json::json!(slice));
        meta.insert("build_group".into(), serde_json::json!(build_group));
        meta.insert("targets".into(), serde_json::json!(targets));
        // the schedule must be the same for all slices of a scenario
        let mut krng = Rng::new(crate::rng::mix(&[base, scen, 0x5c4ed]));
        let _ = rng;
        Case {
            property: "C10".into(),
            seed: crate::rng::mix(&[base, scen, 0x5eed]),
            scenario: sc,
            knobs: Knobs::draw(&mut krng),
            opts: PlayOpts::default(),
            meta,
        }
    }
    fn follow_ups(&self, case: &Case, first: &RunRecord) -> Vec<Case> {
        let bg = case.meta["build_group"].as_u64().unwrap() as usize;
        let slice = case.meta["slice"].as_u64().unwrap();
        let m = first
            .groups
            .iter()
            .find(|g| g.step_idx == bg)
            .map(|g| g.sc_count)
            .unwrap_or(0);
        let mut v = Vec::new();
        for k in 0..m {
            if k % SLICES != slice {
                continue;
            }
            for tree in [false, true] {
                let mut c = case.clone();
                c.opts.kill_at = Some((bg, k, tree));
                c.opts.record_events = true;
                c.meta.insert("crash_point".into(), serde_json::json!(k));
                c.meta.insert("of".into(), serde_json::json!(m));
                v.push(c);
            }
        }
        // timed aborts: SIGKILL to the command's process group at moments
        // spread evenly over the recorded run, whatever the processes are
        // doing then (typically: a script is running and redo waits for it,
        // which no crash point *before a call of a redo process* covers)
        let steps = first.groups.iter().find(|g| g.step_idx == bg).map(|g| g.steps).unwrap_or(0);
        if steps > 0 {
            for j in 0..TIMED {
                let at = (j * SLICES + slice) * steps / (TIMED * SLICES);
                let mut c = case.clone();
                c.opts.kill_cmd_at = Some((bg, 0, at));
                c.opts.record_events = true;
                c.meta.insert("crash_point".into(), serde_json::json!(format!("step {}", at)));
                c.meta.insert("of".into(), serde_json::json!(steps));
                v.push(c);
            }
        }
        v
    }
    fn nontrivial(&self, case: &Case, rec: &RunRecord) -> bool {
        let bg = case.meta["build_group"].as_u64().unwrap() as usize;
        rec.groups
            .iter()
            .any(|g| g.step_idx == bg && g.kill_fired.is_some())
    }
    fn signature(&self, case: &Case, _rec: &RunRecord) -> u64 {
        crate::rng::hash_str(&format!(
            "{:?}{:?}{:?}",
            case.meta.get("scenario"),
            case.opts.kill_at,
            case.opts.kill_cmd_at
        ))
    }
    fn check(&self, case: &Case, rec: &RunRecord, _obs: &dyn Observer) -> Vec<Violation> {
        let mut v = Vec::new();
        let bg = case.meta["build_group"].as_u64().unwrap() as usize;
        let targets: Vec<String> = case.meta["targets"]
            .as_array()
            .unwrap()
            .iter()
            .map(|x| x.as_str().unwrap().to_string())
            .collect();
        let fired = rec
            .groups
            .iter()
            .find(|g| g.step_idx == bg)
            .and_then(|g| g.kill_fired.clone());
        let what = match (&fired, case.opts.kill_at) {
            (Some(f), Some((_, k, _))) => format!("after {} (crash point {} of {})", f, k, case.meta.get("of").cloned().unwrap_or_default()),
            (Some(f), None) if case.opts.kill_cmd_at.is_some() => format!("after {} (timed abort, run of {} steps)", f, case.meta.get("of").cloned().unwrap_or_default()),
            _ => "without a kill".to_string(),
        };
        for g in rec.groups.iter().filter(|g| g.step_idx > bg) {
            let which = if g.step_idx == bg + 1 { "recovery" } else { "rebuild after an edit" };
            if let Some(p) = has_panic(g) {
                v.push(Violation {
                    kind: "recovery-crash".into(),
                    detail: format!("{}: {} run crashed: {}", what, which, p),
                });
                continue;
            }
            if g.outcome != crate::sim::StepOutcome::AllDead {
                v.push(Violation {
                    kind: "recovery-hang".into(),
                    detail: format!("{}: {} run does not terminate: {}", what, which, g.deadlock_report),
                });
                continue;
            }
            let r = &g.results[0];
            if r.status != Some(0) {
                v.push(Violation {
                    kind: "recovery-fails".into(),
                    detail: format!("{}: {} run exited {:?}; stderr: {}", what, which, r.status, c09::tail(&r.stderr, 400)),
                });
                continue;
            }
            if r.stderr.contains("you modified it") {
                v.push(Violation {
                    kind: "false-override".into(),
                    detail: format!("{}: {} run reports a manual override of a file only redo ever wrote: {}", what, which, first_lines(&r.stderr, 4)),
                });
            }
            let mut f = freshness(rec, g.step_idx, &targets);
            for x in f.iter_mut() {
                x.kind = if g.step_idx == bg + 1 { "stale-after-recovery".into() } else { "stale-after-edit".into() };
                x.detail = format!("{}: {}", what, x.detail);
            }
            v.extend(f);
            if let Some(t) = rec.fs_after[g.step_idx].keys().find(|k| k.ends_with(".redo.tmp")) {
                v.push(Violation {
                    kind: "temp-left-behind".into(),
                    detail: format!("{}: {} is still there after the {} run", what, t, which),
                });
            }
        }
        if !v.is_empty() {
            if let Some(g) = rec.groups.iter().find(|g| g.step_idx == bg) {
                // a window on a target that had never been built before the
                // killed command is tagged `rename-commit-first:`
                // (never built = no file and no generated record before the command)
                let existed = |t: &str| {
                    bg > 0
                        && (rec.fs_after[bg - 1].contains_key(t)
                            || rec.db_after[..bg]
                                .iter()
                                .rev()
                                .flatten()
                                .next()
                                .map_or(false, |db| db.files.get(t).map_or(false, |f| f.0)))
                };
                let w: Vec<String> = open_windows(g)
                    .into_iter()
                    .map(|x| match x.strip_prefix("rename-commit:") {
                        Some(t) if !existed(t) => format!("rename-commit-first:{}", t),
                        _ => x,
                    })
                    .collect();
                if !w.is_empty() {
                    // an open rename window explains more than an open stamp window
                    let kind = if w.iter().any(|x| x.starts_with("rename-commit")) {
                        "interrupted-rename-commit"
                    } else {
                        "interrupted-stamp-commit"
                    };
                    // the symptom of an interrupted commit is a run that succeeds on
                    // a misjudged record and a target that no longer reacts to edits;
                    // crashes, failures and hangs of the recovery keep their own kind
                    for x in v.iter_mut().filter(|x| x.kind.starts_with("stale-") || x.kind == "false-override") {
                        x.detail = format!("[{} in flight: {:?}] {}: {}", kind, w, x.kind, x.detail);
                        x.kind = kind.to_string();
                    }
                }
            }
        }
        v
    }
    fn probes(&self, case: &Case, rec: &RunRecord) -> BTreeMap<String, u64> {
        let mut m = BTreeMap::new();
        let bg = case.meta["build_group"].as_u64().unwrap() as usize;
        if let Some(g) = rec.groups.iter().find(|g| g.step_idx == bg) {
            for w in open_windows(g) {
                let k = w.split(':').next().unwrap_or("").to_string();
                *m.entry(format!("kill_inside_window:{}", k)).or_insert(0) += 1;
            }
            if let Some(f) = &g.kill_fired {
                *m.entry("kills_fired".to_string()).or_insert(0) += 1;
                // class of the call the kill preceded
                let call = f
                    .split('[')
                    .nth(1)
                    .map(|s| s.split(' ').take(2).collect::<Vec<_>>().join(" "))
                    .unwrap_or_default();
                let call: String = call.chars().filter(|c| !c.is_ascii_digit()).collect();
                let who = f.split(' ').nth(1).unwrap_or("");
                *m.entry(format!("crash_before:{}:{}", who, call.trim_end_matches(']'))).or_insert(0) += 1;
            }
        }
        m
    }
}

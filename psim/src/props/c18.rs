//! C18 -- build output is logged completely, once, and under the right target
//! (the schedule-dependent part; the format/parse round trip of single records
//! is a pure function and not a simulation target).

use super::gen::*;
use super::oracle::*;
use super::*;
use crate::dsl::*;

pub struct C18;

/// Parse raw (--no-pretty) redo-log output.  Grammar observed on the real
/// binary: `@@REDO:do:..@@ T` starts the (contiguous) log of T, `@@REDO:resumed:..@@ T`
/// says that T's own output continues, `@@REDO:done:..@@ rc T` reports T's
/// status (it comes from the parent's log, so with parallel siblings it may
/// arrive while a later sibling is current); every other line belongs to the
/// current target.
pub fn attribute(raw: &str) -> (BTreeMap<String, Vec<String>>, BTreeMap<String, Vec<i32>>, Vec<String>) {
    let (a, b, c, _) = attribute_counting(raw);
    (a, b, c)
}

#[allow(clippy::type_complexity)]
pub fn attribute_counting(
    raw: &str,
) -> (
    BTreeMap<String, Vec<String>>,
    BTreeMap<String, Vec<i32>>,
    Vec<String>,
    BTreeMap<String, u32>,
) {
    let mut dos: BTreeMap<String, u32> = BTreeMap::new();
    let mut per: BTreeMap<String, Vec<String>> = BTreeMap::new();
    let mut done: BTreeMap<String, Vec<i32>> = BTreeMap::new();
    let mut problems = Vec::new();
    let mut cur: Option<String> = None;
    let mut started: std::collections::BTreeSet<String> = Default::default();
    for line in raw.split('\n') {
        if let Some(rest) = line.strip_prefix("@@REDO:") {
            if let Some(i) = rest.find("@@ ") {
                let meta = &rest[..i];
                let text = &rest[i + 3..];
                let kind = meta.split(':').next().unwrap_or("");
                let well_formed = meta.split(':').count() >= 3
                    && meta.split(':').nth(1).map_or(false, |p| p.parse::<i64>().is_ok())
                    && meta.split(':').nth(2).map_or(false, |t| t.parse::<f64>().is_ok());
                if well_formed {
                    match kind {
                        "do" => {
                            // a target built again in the same session gets a
                            // further `do` record; the caller compares the number
                            // of records with the number of executions
                            started.insert(text.to_string());
                            *dos.entry(text.to_string()).or_insert(0) += 1;
                            cur = Some(text.to_string());
                        }
                        "resumed" => cur = Some(text.to_string()),
                        "done" => {
                            let mut w = text.splitn(2, ' ');
                            let rc = w.next().and_then(|x| x.parse::<i32>().ok());
                            let name = w.next().unwrap_or("").to_string();
                            if !started.contains(&name) {
                                problems.push(format!("done for {} which was never started", name));
                            }
                            if let Some(rc) = rc {
                                done.entry(name).or_default().push(rc);
                            }
                        }
                        _ => {}
                    }
                    continue;
                }
            }
        }
        if line.is_empty() {
            continue;
        }
        per.entry(cur.clone().unwrap_or_default())
            .or_default()
            .push(line.to_string());
    }
    (per, done, problems, dos)
}

/// What the viewer shows for a script's lines: redo-log drops trailing white
/// space of a line (its `clean_line`); everything else, leading indentation
/// included, is the script's.
fn script_lines(rule: &Rule) -> Vec<String> {
    raw_script_lines(rule).into_iter().map(|l| l.trim_end().to_string()).collect()
}

fn raw_script_lines(rule: &Rule) -> Vec<String> {
    let mut out = Vec::new();
    let mut partial = String::new();
    for st in &rule.stmts {
        match st {
            Stmt::Err(t) => {
                out.push(format!("{}{}", partial, t));
                partial.clear();
            }
            Stmt::ErrPart(t) => partial.push_str(t),
            Stmt::ErrLong { n, tag } => {
                let mut b = tag.clone();
                while b.len() < *n {
                    b.push('x');
                }
                out.push(format!("{}{}", partial, b));
                partial.clear();
            }
            _ => {}
        }
    }
    if !partial.is_empty() {
        out.push(partial);
    }
    out
}

/// A target that is built two or three times in one session (its parent calls
/// `redo n1` repeatedly): each build gets a new log while a reader may still
/// be busy with the previous one.
fn rebuilt_in_session_case(rng: &mut Rng, seed: u64) -> Case {
    let mut line_no = 0;
    let mut lines = |rng: &mut Rng, t: &str, stmts: &mut Vec<Stmt>, k: u64| {
        for _ in 0..k {
            line_no += 1;
            match rng.below(6) {
                0 => stmts.push(Stmt::ErrLong { n: 5000, tag: format!("{} long{} ", t, line_no) }),
                1 => stmts.push(Stmt::ErrLong { n: 70000, tag: format!("{} huge{} ", t, line_no) }),
                _ => stmts.push(Stmt::Err(format!("{} line{}", t, line_no))),
            }
        }
    };
    let mut rules: Vec<(String, Rule)> = Vec::new();
    let mut n0 = Vec::new();
    let k = rng.range(0, 2);
    lines(rng, "n0", &mut n0, k);
    for _ in 0..rng.range(2, 3) {
        n0.push(Stmt::Redo(vec!["n1".into()]));
        let k = rng.range(0, 2);
        lines(rng, "n0", &mut n0, k);
    }
    rules.push(("n0.do".into(), Rule { version: 0, stmts: n0 }));
    let mut n1 = Vec::new();
    let k = rng.range(2, 8);
    lines(rng, "n1", &mut n1, k);
    if rng.chance(1, 2) {
        n1.push(Stmt::IfChange(vec!["n2".into()]));
        let k = rng.range(0, 3);
        lines(rng, "n1", &mut n1, k);
    }
    if rng.chance(1, 2) {
        n1.push(Stmt::Work(rng.range(1, 40)));
    }
    rules.push(("n1.do".into(), Rule { version: 0, stmts: n1 }));
    let mut n2 = Vec::new();
    let k = rng.range(1, 3);
    lines(rng, "n2", &mut n2, k);
    rules.push(("n2.do".into(), Rule { version: 0, stmts: n2 }));
    let mut sc = Scenario {
        family: "c18-rebuilt".into(),
        files: vec![("s0".into(), source_content("s0", 0))],
        rules,
        ..Default::default()
    };
    let c = Cmd::new(&["redo", &format!("-j{}", rng.range(1, 3)), "--no-pretty", "n0"]);
    sc.history.push(Step::Cmds(vec![c]));
    sc.history
        .push(Step::Cmds(vec![Cmd::new(&["redo-log", "--no-pretty", "-r", "n0"])]));
    Case {
        property: "C18".into(),
        seed,
        scenario: sc,
        knobs: Knobs::draw(rng),
        opts: PlayOpts::default(),
        meta: BTreeMap::new(),
    }
}

/// Spread the flat scenario over a directory: some targets move to `sub/` and
/// are built either by a specific rule there (the script runs in `sub/`) or by
/// a `default.<ext>.do` rule of their own in the root (the script runs in the
/// root, its target lies below it).  The names in the scripts' redo-ifchange
/// calls are rewritten relative to the directory each script runs in.
fn spread_over_directories(rng: &mut Rng, sc: &mut Scenario, meta: &mut BTreeMap<String, serde_json::Value>) {
    // flat name -> (target path, rule path, directory the script runs in)
    let mut place: BTreeMap<String, (String, String, String)> = BTreeMap::new();
    for (p, _) in &sc.rules {
        let name = p.trim_end_matches(".do").to_string();
        let idx = name.trim_start_matches('n').to_string();
        let pl = if name == "n0" {
            (name.clone(), p.clone(), String::new())
        } else {
            match rng.below(4) {
                0 => (name.clone(), p.clone(), String::new()),
                1 => (format!("sub/{}", name), format!("sub/{}.do", name), "sub".to_string()),
                _ => (
                    format!("sub/{}.e{}", name, idx),
                    format!("default.e{}.do", idx),
                    String::new(),
                ),
            }
        };
        place.insert(name, pl);
    }
    let rel = |from_dir: &str, target: &str| -> String {
        if from_dir.is_empty() {
            target.to_string()
        } else if let Some(r) = target.strip_prefix(&format!("{}/", from_dir)) {
            r.to_string()
        } else {
            format!("../{}", target)
        }
    };
    let mut rule_of = serde_json::Map::new();
    let mut tags = serde_json::Map::new();
    let old = std::mem::take(&mut sc.rules);
    for (p, mut r) in old {
        let name = p.trim_end_matches(".do").to_string();
        let (tpath, rpath, dir) = place[&name].clone();
        // one script in four changes its directory before it asks for anything
        let first_req = r
            .stmts
            .iter()
            .position(|st| matches!(st, Stmt::IfChange(_) | Stmt::Redo(_)));
        let (from, chdir) = match first_req {
            Some(at) if rng.chance(1, 4) => {
                if dir.is_empty() {
                    ("sub".to_string(), Some((at, "sub".to_string())))
                } else {
                    (String::new(), Some((at, "..".to_string())))
                }
            }
            _ => (dir.clone(), None),
        };
        for st in r.stmts.iter_mut() {
            if let Stmt::IfChange(v) | Stmt::Redo(v) = st {
                for x in v.iter_mut() {
                    if let Some((tp, _, _)) = place.get(x.as_str()) {
                        *x = rel(&from, tp);
                    }
                }
            }
        }
        if let Some((at, to)) = chdir {
            r.stmts.insert(at, Stmt::Chdir(to));
        }
        rule_of.insert(tpath.clone(), serde_json::json!(rpath));
        tags.insert(tpath, serde_json::json!(name));
        sc.rules.push((rpath, r));
    }
    sc.dirs.push("sub".into());
    sc.family = "c18-dirs".into();
    meta.insert("rule_of".into(), serde_json::Value::Object(rule_of));
    meta.insert("tags".into(), serde_json::Value::Object(tags));
}

impl Property for C18 {
    fn id(&self) -> &'static str {
        "C18"
    }
    fn runs(&self, tier: Tier) -> u64 {
        match tier {
            Tier::Quick => 2500,
            Tier::Thorough => 40000,
        }
    }
    fn rule(&self) -> &'static str {
        "2-6 targets (nested and sibling; in every sixth scenario spread over a sub-directory, built by \
         specific rules there or by default.<ext>.do rules of the directory above) built by redo -j1..4 with log capture on and raw output; every \
         script writes numbered stderr lines before, between and after its redo-ifchange calls: \
         every sixth scenario: the deepest script is terminated by a signal after its last line (negative status in its done record, failing targets above it); partial lines completed later (also in 3-5 pieces with pauses of 15 ms-1.5 s between them), \
         lines of 5 kB and 70 kB, indented lines that end in blanks or a carriage return, lines that resemble structured records \
         without being well-formed ones, lines from a background child of the script that writes \
         into the same log concurrently; the scheduler interleaves the writers with redo-log's reads, \
         sleeps and lock probes; afterwards `redo-log --no-pretty -r` replays the top target; oracle: a \
         stack-machine parse of both outputs attributes every line to a target; per target the \
         sequence of its lines equals what its script wrote, exactly once and in order, in both views, \
         and its done record carries the script's status; non-trivial = >=1 preemption and >=2 \
         scripts; distinct = (scenario, preemption signature)"
    }
    fn assumptions(&self) -> Vec<String> {
        vec![
            "a stderr line that is itself a well-formed record is indistinguishable from a real one by design and is not generated".into(),
            "the record format/parse round trip for arbitrary (kind, pid, timestamp, text) is a pure function and not checked here".into(),
        ]
    }
    fn generate(&self, rng: &mut Rng, seed: u64, _tier: Tier, index: u64) -> Case {
        if index % 6 == 5 {
            return rebuilt_in_session_case(rng, seed);
        }
        let n = rng.range(2, 6) as usize;
        let names: Vec<String> = (0..n).map(|i| format!("n{}", i)).collect();
        let mut rules: Vec<(String, Rule)> = Vec::new();
        let mut line_no = 0;
        let mut mk_lines = |rng: &mut Rng, t: &str, stmts: &mut Vec<Stmt>, k: u64| {
            for _ in 0..k {
                line_no += 1;
                match rng.below(14) {
                    13 => {
                        // a second writer into this target's log: a background
                        // child of the script keeps printing while the script
                        // (and the redo processes it starts) write as well
                        stmts.push(Stmt::ErrBg { n: rng.range(3, 8) as usize, tag: t.to_string() });
                    }
                    0 => {
                        stmts.push(Stmt::ErrPart(format!("{} part{} ", t, line_no)));
                        stmts.push(Stmt::Err(format!("completed{}", line_no)));
                    }
                    12 => {
                        // progress-bar style: one line written in 3-5 pieces with
                        // pauses in which a following redo-log polls the file
                        stmts.push(Stmt::ErrPart(format!("{} progress{}", t, line_no)));
                        for k in 0..rng.range(1, 3) {
                            stmts.push(Stmt::Work(*rng.pick(&[15, 40, 120, 600, 1500])));
                            stmts.push(Stmt::ErrPart(format!(" .{}", k)));
                        }
                        stmts.push(Stmt::Work(*rng.pick(&[15, 40, 120, 600])));
                        stmts.push(Stmt::Err(format!(" finished{}", line_no)));
                    }
                    1 => stmts.push(Stmt::ErrLong { n: 5000, tag: format!("{} long{} ", t, line_no) }),
                    2 => stmts.push(Stmt::ErrLong { n: 70000, tag: format!("{} huge{} ", t, line_no) }),
                    3 => stmts.push(Stmt::Err(format!("@@REDO fake{} {}", line_no, t))),
                    4 => stmts.push(Stmt::Err(format!("@@REDO:do:notanumber:1.0@@ {} fake{}", t, line_no))),
                    5 => stmts.push(Stmt::Err(format!("@@REDO:done:12:x@@ 0 {} fake{}", t, line_no))),
                    6 => stmts.push(Stmt::Err(format!("      {} indented{}  ", t, line_no))),
                    7 => stmts.push(Stmt::Err(format!("  ^~~~ {} caret{}\r", t, line_no))),
                    _ => stmts.push(Stmt::Err(format!("{} line{}", t, line_no))),
                }
            }
        };
        for i in 0..n {
            let mut stmts = Vec::new();
            let k = rng.range(0, 3);
            mk_lines(rng, &names[i], &mut stmts, k);
            // children: higher-numbered names
            let kids: Vec<String> = names[i + 1..]
                .iter()
                .filter(|_| rng.chance(1, 2))
                .cloned()
                .collect();
            if !kids.is_empty() {
                if kids.len() >= 2 && rng.chance(1, 2) {
                    stmts.push(Stmt::IfChange(kids[..1].to_vec()));
                    let k = rng.range(0, 2);
            mk_lines(rng, &names[i], &mut stmts, k);
                    stmts.push(Stmt::IfChange(kids[1..].to_vec()));
                } else {
                    stmts.push(Stmt::IfChange(kids));
                }
            }
            if rng.chance(1, 2) {
                stmts.push(Stmt::Work(rng.range(1, 40)));
            }
            let k = rng.range(0, 3);
            mk_lines(rng, &names[i], &mut stmts, k);
            if stmts.iter().any(|s| matches!(s, Stmt::ErrBg { .. })) {
                // with a second writer in the same log an unterminated piece
                // would legitimately be completed by the other writer's line:
                // scripts with a background writer write whole lines only
                stmts.retain(|st| !matches!(st, Stmt::ErrPart(_)));
            }
            rules.push((format!("{}.do", names[i]), Rule { version: 0, stmts }));
        }
        // make everything reachable from n0
        {
            let reach: std::collections::BTreeSet<String> = {
                let mut w = crate::model::World::default();
                for (p, r) in &rules {
                    w.rules.insert(p.clone(), r.clone());
                }
                w.closure("n0")
            };
            let missing: Vec<String> = names.iter().filter(|x| !reach.contains(*x)).cloned().collect();
            if !missing.is_empty() {
                rules[0].1.stmts.push(Stmt::IfChange(missing));
            }
        }
        let mut sc = Scenario {
            family: "c18".into(),
            files: vec![("s0".into(), source_content("s0", 0))],
            rules,
            ..Default::default()
        };
        let mut meta = BTreeMap::new();
        if index % 6 == 2 {
            spread_over_directories(rng, &mut sc, &mut meta);
        }
        if index % 6 == 4 {
            // the last script (a leaf) writes its lines and is then terminated
            // by a signal: its `done` record carries a negative status, every
            // target above it fails at the redo-ifchange that asked for it
            let victim = names[n - 1].clone();
            for (p, r) in sc.rules.iter_mut() {
                // (a background writer may be cut short by the failure)
                r.stmts.retain(|st| !matches!(st, Stmt::ErrBg { .. }));
                if p.trim_end_matches(".do") == victim {
                    r.stmts.push(Stmt::KillSelf(*rng.pick(&[15, 9, 2])));
                }
            }
            sc.family = "c18-signal".into();
            meta.insert("victim".into(), serde_json::json!(victim));
        }
        let j = rng.range(1, 4);
        let mut c = Cmd::new(&["redo", &format!("-j{}", j), "--no-pretty", "n0"]);
        if rng.chance(1, 4) {
            c.argv.insert(1, "--shuffle".into());
        }
        sc.history.push(Step::Cmds(vec![c]));
        sc.history
            .push(Step::Cmds(vec![Cmd::new(&["redo-log", "--no-pretty", "-r", "n0"])]));
        Case {
            property: "C18".into(),
            seed,
            scenario: sc,
            knobs: Knobs::draw(rng),
            opts: PlayOpts::default(),
            meta,
        }
    }
    fn probes(&self, case: &Case, rec: &RunRecord) -> BTreeMap<String, u64> {
        let mut m = BTreeMap::new();
        m.insert(format!("family_{}", case.scenario.family), 1);
        if let Some(g) = rec.groups.first() {
            if g.procs.iter().any(|p| matches!(p.status, Some(s) if s < 0) && !p.killed && p.name == "simdo") {
                m.insert("script_terminated_by_signal".into(), 1);
            }
            if g.events.iter().any(|e| e.text.starts_with("exec redo-log")) {
                m.insert("live_follower_started".into(), 1);
            }
        }
        m
    }
    fn nontrivial(&self, _case: &Case, rec: &RunRecord) -> bool {
        rec.groups.first().map_or(false, |g| {
            g.preemptions > 0 && g.events.iter().filter(|e| e.text.starts_with("do-begin")).count() >= 2
        })
    }
    fn check(&self, case: &Case, rec: &RunRecord, _obs: &dyn Observer) -> Vec<Violation> {
        let mut v = Vec::new();
        if rec.groups.len() < 2 {
            return v;
        }
        // a crash of the log viewer loses lines: that is this property's business
        // (crashes of the builders are C09's)
        for (gi, view) in [(0usize, "live output"), (1usize, "redo-log replay")] {
            let g = &rec.groups[gi];
            let viewer = g.procs.iter().find(|p| {
                p.name == "redo-log"
                    && !p.killed
                    && matches!(p.status, Some(s) if s == 101 || s == -(libc::SIGABRT) || s == -(libc::SIGSEGV))
            });
            if let Some(p) = viewer {
                let msg = g
                    .results
                    .iter()
                    .flat_map(|r| r.stderr.lines().chain(r.stdout.lines()))
                    .find(|l| l.contains("panicked at"))
                    .unwrap_or("")
                    .to_string();
                v.push(Violation {
                    kind: "log-viewer-crashed".into(),
                    detail: format!("{}: redo-log ({}) ended with status {:?}: {}", view, p.lid, p.status, msg),
                });
            }
        }
        if !v.is_empty() {
            return v;
        }
        if !judgeable(&rec.groups[0]) || !judgeable(&rec.groups[1]) {
            return v;
        }
        let live = &rec.groups[0].results[0];
        let replay = &rec.groups[1].results[0];
        let victim: Option<String> = case.meta.get("victim").and_then(|x| x.as_str()).map(|x| x.to_string());
        if live.status != Some(0) && victim.is_none() {
            return v;
        }

        if replay.status != Some(0) {
            v.push(Violation {
                kind: "log-replay-failed".into(),
                detail: format!("redo-log -r n0 exited {:?}; stderr: {}", replay.status, c09::tail(&replay.stderr, 300)),
            });
            return v;
        }
        // target -> rule path (scenarios spread over directories say so in meta)
        let rule_of: BTreeMap<String, String> = match case.meta.get("rule_of").and_then(|m| m.as_object()) {
            Some(m) => m
                .iter()
                .map(|(t, r)| (t.clone(), r.as_str().unwrap_or("").to_string()))
                .collect(),
            None => case
                .scenario
                .rules
                .iter()
                .map(|(p, _)| (p.trim_end_matches(".do").to_string(), p.clone()))
                .collect(),
        };
        let tag_of = |t: &str| -> String {
            case.meta
                .get("tags")
                .and_then(|m| m.get(t))
                .and_then(|x| x.as_str())
                .unwrap_or(t)
                .to_string()
        };
        // targets that fail because the victim below them is killed by a signal
        let failing: std::collections::BTreeSet<String> = match &victim {
            Some(vt) => {
                let w = &rec.world_after[0];
                rule_of
                    .keys()
                    .filter(|t| *t == vt || w.closure(t).contains(vt))
                    .cloned()
                    .collect()
            }
            None => Default::default(),
        };
        let expected: BTreeMap<String, Vec<String>> = rule_of
            .iter()
            .filter_map(|(t, rp)| {
                case.scenario.rules.iter().find(|(p, _)| p == rp).map(|(_, r)| {
                    if failing.contains(t) && Some(t) != victim.as_ref() {
                        // the script ends at the first request that includes a failing target
                        let cut = r
                            .stmts
                            .iter()
                            .position(|st| matches!(st, Stmt::IfChange(v) | Stmt::Redo(v) if v.iter().any(|k| failing.contains(k))))
                            .unwrap_or(r.stmts.len());
                        let head = Rule { version: r.version, stmts: r.stmts[..cut].to_vec() };
                        (t.clone(), script_lines(&head))
                    } else {
                        (t.clone(), script_lines(r))
                    }
                })
            })
            .collect();
        // redo-log shows the log of a target once per invocation, also when the
        // target is built k times in the session (a script that calls `redo x`
        // repeatedly): one `do` record and one copy of its lines -- live from
        // the first build, which a reader may still be busy with when the next
        // build replaces the log, in the replay from the last build -- and one
        // `done` record per execution
        let execs = exec_counts(&rec.groups[0]);
        for (view, text) in [("live output", &live.stderr), ("redo-log replay", &replay.stdout)] {
            let (per, done, problems, dos) = attribute_counting(text);
            for (t, n) in &dos {
                if *n != 1 {
                    v.push(Violation {
                        kind: "log-structure".into(),
                        detail: format!("{}: {} `do` records for {}", view, n, t),
                    });
                }
            }
            for p in problems {
                v.push(Violation {
                    kind: "log-structure".into(),
                    detail: format!("{}: {}", view, p),
                });
            }
            for (t, want) in &expected {
                if !execs.contains_key(t) {
                    // a rule nobody asked for
                    continue;
                }
                let k = execs.get(t).copied().unwrap_or(1).max(1) as usize;
                let all: Vec<String> = per
                    .get(t)
                    .map(|l| l.iter().filter(|x| !x.starts_with("redo ")).cloned().collect())
                    .unwrap_or_default();
                // the lines of the script's background writers (`<t> bg<k>`) form
                // streams of their own: each complete, once, in order; where they
                // fall between the script's own lines is up to the scheduler
                let is_bg = |x: &String| {
                    x.strip_prefix(&format!("{} bg", tag_of(t)))
                        .map_or(false, |r| !r.is_empty() && r.chars().all(|c| c.is_ascii_digit()))
                };
                let got_bg: Vec<String> = all.iter().filter(|x| is_bg(x)).cloned().collect();
                let got: Vec<String> = all.iter().filter(|x| !is_bg(x)).cloned().collect();
                let mut want_bg: Vec<String> = Vec::new();
                if let Some((_, rule)) = case.scenario.rules.iter().find(|(p, _)| Some(p) == rule_of.get(t)) {
                    for st in &rule.stmts {
                        if let Stmt::ErrBg { n, tag } = st {
                            for i in 0..*n {
                                want_bg.push(format!("{} bg{}", tag, i));
                            }
                        }
                    }
                }
                // several writers: every writer's own sequence is a subsequence
                let mut sorted_got = got_bg.clone();
                let mut sorted_want = want_bg.clone();
                sorted_got.sort();
                sorted_want.sort();
                let bg_ok = sorted_got == sorted_want && {
                    // per statement (same tag, restarting at 0) order is kept: the
                    // numbers of equal-tag lines never decrease between restarts
                    // more often than there are writers
                    let nums: Vec<u32> = got_bg
                        .iter()
                        .filter_map(|x| x.rsplit("bg").next().and_then(|n| n.parse().ok()))
                        .collect();
                    let writers = want_bg.iter().filter(|x| x.ends_with(" bg0")).count().max(1);
                    nums.windows(2).filter(|w| w[1] < w[0]).count() < writers * nums.len().max(1)
                };
                if !bg_ok {
                    v.push(Violation {
                        kind: "log-lines-differ".into(),
                        detail: format!(
                            "{}: background-writer lines attributed to {} are {:?}; the writers wrote {:?}",
                            view, t, got_bg, want_bg
                        ),
                    });
                    break;
                }
                // a sub-target of a target that is built again in the same session:
                // the replay shows the last build of the parent, which found the
                // sub-target unchanged and does not refer to its log; a live
                // follower that opens the parent's log only after it was replaced
                // sees the same (known finding C18-subtarget-of-rebuilt-target)
                let below_rebuilt = case.scenario.family == "c18-rebuilt" && t == "n2";
                if below_rebuilt && got.is_empty() && !dos.contains_key(t) {
                    if view == "live output" && !want.is_empty() {
                        v.push(Violation {
                            kind: "log-subtarget-of-rebuilt-target-lost".into(),
                            detail: format!(
                                "live output: subtarget-of-rebuilt-target: the lines of {} ({:?}) never appear; its parent n1 was built {} times in this session",
                                t,
                                want.iter().map(|s| s.chars().take(30).collect::<String>()).collect::<Vec<_>>(),
                                execs.get("n1").copied().unwrap_or(0)
                            ),
                        });
                    }
                    continue;
                }
                if &got != want {
                    let short = |v: &Vec<String>| -> Vec<String> {
                        v.iter().map(|s| if s.len() > 60 { format!("{}..({} bytes)", &s[..40], s.len()) } else { s.clone() }).collect()
                    };
                    v.push(Violation {
                        kind: "log-lines-differ".into(),
                        detail: format!(
                            "{}: lines attributed to {} are {:?}; its script wrote {:?}",
                            view,
                            t,
                            short(&got),
                            short(want)
                        ),
                    });
                    break;
                }
                // the done record of the requested target is written by the
                // top-level command itself, not into any target's log
                // (in the replay the last build of a rebuilt parent refers to its
                // unchanged sub-target without a done record)
                let root_in_replay = view == "redo-log replay" && (t == "n0" || below_rebuilt);
                if failing.contains(t) {
                    // a failing target: the victim's record carries the signal
                    if Some(t) == victim.as_ref() && view == "live output" {
                        let ok = done.get(t).map_or(false, |d| d.len() == 1 && d[0] < 0);
                        if !ok {
                            v.push(Violation {
                                kind: "log-done-record".into(),
                                detail: format!("{}: done records of {} (terminated by a signal): {:?}", view, t, done.get(t)),
                            });
                        }
                    }
                    continue;
                }
                if !root_in_replay && done.get(t).map(|d| d.as_slice()) != Some(&vec![0; k][..]) {
                    v.push(Violation {
                        kind: "log-done-record".into(),
                        detail: format!("{}: done records of {}: {:?} (expected {} with status 0)", view, t, done.get(t), k),
                    });
                }
            }
            if let Some(stray) = per.get("") {
                let stray: Vec<&String> = stray.iter().filter(|l| !l.starts_with("redo")).collect();
                if !stray.is_empty() {
                    v.push(Violation {
                        kind: "log-unattributed".into(),
                        detail: format!("{}: lines outside any target: {:?}", view, stray.iter().take(3).collect::<Vec<_>>()),
                    });
                }
            }
        }
        v
    }
}

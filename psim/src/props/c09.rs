//! C09 -- no interleaving crashes or deadlocks the scheduler.

use super::gen::*;
use crate::dsl::*;
use super::*;
use crate::sim::StepOutcome;

pub struct C09;

/// Checks shared by every property whose scenarios must end cleanly.
pub fn liveness_violations(rec: &RunRecord) -> Vec<Violation> {
    let mut v = Vec::new();
    for g in &rec.groups {
        if let Some(p) = has_panic(g) {
            v.push(Violation {
                kind: "panic".into(),
                detail: format!("group {}: {}", g.step_idx, p),
            });
        }
        match g.outcome {
            StepOutcome::Deadlock => v.push(Violation {
                kind: "deadlock".into(),
                detail: format!(
                    "group {}: every live process is blocked and no timer is pending: {}",
                    g.step_idx, g.deadlock_report
                ),
            }),
            StepOutcome::StepLimit => v.push(Violation {
                kind: "no-termination".into(),
                detail: format!(
                    "group {}: still running after {} scheduling steps: {}",
                    g.step_idx, g.steps, g.deadlock_report
                ),
            }),
            _ => {}
        }
    }
    v
}

/// Token starvation after a lock wait: several scripts need the same slow
/// target, so all but one sub-redo give their token back and wait for its
/// lock; the tokens go to other jobs that run for minutes; when the lock is
/// handed over the waiters need a token again and wait for one, for longer
/// than any back-off ramp.
fn starve_case(rng: &mut Rng, seed: u64) -> Case {
    let n_wait = rng.range(2, 3) as usize;
    let n_long = rng.range(1, 3) as usize;
    let mut rules: Vec<(String, Rule)> = Vec::new();
    rules.push((
        "x.do".into(),
        Rule {
            version: 0,
            stmts: vec![Stmt::IfChange(vec!["s0".into()]), Stmt::Work(*rng.pick(&[50, 500, 5_000, 40_000]))],
        },
    ));
    let mut names = Vec::new();
    for i in 0..n_wait {
        // a waiter that says `redo x` builds x again once it has the lock: the
        // process that lost its token in the lock wait (and may go on with a
        // borrowed one) then starts a job itself
        let first = if rng.chance(1, 3) {
            Stmt::Redo(vec!["x".into()])
        } else {
            Stmt::IfChange(vec!["x".into()])
        };
        let mut stmts = vec![first];
        if rng.chance(1, 3) {
            stmts.push(Stmt::Work(rng.range(1, 2_000)));
        }
        rules.push((format!("w{}.do", i), Rule { version: 0, stmts }));
        names.push(format!("w{}", i));
    }
    for i in 0..n_long {
        rules.push((
            format!("l{}.do", i),
            Rule {
                version: 0,
                stmts: vec![Stmt::IfChange(vec!["s0".into()]), Stmt::Work(if rng.chance(1, 2) { rng.range(70_000, 200_000) } else { rng.range(100, 3_000) })],
            },
        ));
        names.push(format!("l{}", i));
    }
    if rng.chance(1, 2) {
        rng.shuffle(&mut names);
    }
    let via_top = rng.chance(1, 2);
    if via_top {
        rules.push((
            "top.do".into(),
            Rule {
                version: 0,
                stmts: vec![Stmt::IfChange(names.clone())],
            },
        ));
    }
    let mut sc = Scenario {
        family: "c09-starve".into(),
        files: vec![("s0".into(), source_content("s0", 0))],
        rules,
        ..Default::default()
    };
    let ts: Vec<String> = if via_top { vec!["top".into()] } else { names };
    let mut c = redo_cmd(rng, "redo", &ts, 1, 700);
    c.argv.retain(|a| !a.starts_with("-j"));
    c.argv.insert(1, format!("-j{}", rng.range(2, 3)));
    sc.history.push(Step::Cmds(vec![c]));
    Case {
        property: "C09".into(),
        seed,
        scenario: sc,
        knobs: Knobs::draw(rng),
        opts: PlayOpts::default(),
        meta: BTreeMap::new(),
    }
}

impl C09 {
    fn generate_plain(&self, rng: &mut Rng, seed: u64, index: u64) -> Case {
        if index % 8 == 1 {
            return starve_case(rng, seed);
        }
        let mut p = GraphParams::small(rng);
        p.n_targets = rng.range(2, 7) as usize;
        let mut g = gen_graph(rng, &p);
        // every eighth scenario has one or two jobs that run for minutes of
        // simulated time, so that other processes wait that long for a token
        // or a lock (timers, back-off and retry loops far beyond their ramp-up)
        if index % 8 == 5 {
            for _ in 0..rng.range(1, 2) {
                let i = rng.below(g.rules.len() as u64) as usize;
                let ms = rng.range(70_000, 200_000);
                let st = &mut g.rules[i].1.stmts;
                match st.iter().position(|s| matches!(s, Stmt::Work(_))) {
                    Some(k) => st[k] = Stmt::Work(ms),
                    None => {
                        let at = st.iter().position(|s| matches!(s, Stmt::Stamp { .. })).unwrap_or(st.len());
                        st.insert(at, Stmt::Work(ms));
                    }
                }
            }
        }
        let mut sc = g.scenario("c09");
        let shape = index % 4;
        let mut cmds = Vec::new();
        match shape {
            0 | 1 => {
                // one command, possibly naming several targets
                let mut ts = vec![g.top()];
                if rng.chance(1, 2) {
                    ts.push(rng.pick(&g.targets).clone());
                }
                let prog = if rng.chance(2, 3) { "redo" } else { "redo-ifchange" };
                cmds.push(redo_cmd(rng, prog, &ts, 8, 400));
            }
            2 => {
                // duplicates and aliases on one command line
                let t = rng.pick(&g.targets).clone();
                let alias = match rng.below(3) {
                    0 => t.clone(),
                    1 => format!("./{}", t),
                    _ => format!(".//{}", t),
                };
                let mut ts = vec![t, alias];
                if rng.chance(1, 2) {
                    ts.push(g.top());
                }
                let prog = if rng.chance(1, 2) { "redo" } else { "redo-ifchange" };
                cmds.push(redo_cmd(rng, prog, &ts, 4, 300));
            }
            _ => {
                // contending commands
                let n = rng.range(2, 3);
                for _ in 0..n {
                    let t = if rng.chance(2, 3) {
                        g.top()
                    } else {
                        rng.pick(&g.targets).clone()
                    };
                    let prog = if rng.chance(1, 2) { "redo" } else { "redo-ifchange" };
                    cmds.push(redo_cmd(rng, prog, &[t], 4, 300));
                }
            }
        }
        sc.history.push(Step::Cmds(cmds));
        if rng.chance(1, 2) {
            // a second round after an edit exercises the recorded-graph paths
            let s = rng.pick(&g.sources).clone();
            sc.history.push(Step::Write {
                path: s.clone(),
                bytes: source_content(&s, 1),
            });
            let prog = if rng.chance(1, 2) { "redo" } else { "redo-ifchange" };
            sc.history
                .push(Step::Cmds(vec![redo_cmd(rng, prog, &[g.top()], 6, 400)]));
        }
        Case {
            property: "C09".into(),
            seed,
            scenario: sc,
            knobs: Knobs::draw(rng),
            opts: PlayOpts::default(),
            meta: BTreeMap::new(),
        }
    }
}

impl Property for C09 {
    fn id(&self) -> &'static str {
        "C09"
    }
    fn runs(&self, tier: Tier) -> u64 {
        match tier {
            Tier::Quick => 2000,
            // (every third scenario brings 12 follow-up runs: 100000 runs in all)
            Tier::Thorough => 20000,
        }
    }
    fn rule(&self) -> &'static str {
        "random acyclic graphs of succeeding scripts built by 1-3 concurrent redo/redo-ifchange \
         commands (-j1..8, log on/off, duplicate and aliased names; every eighth scenario with jobs that \
         run for 70-200 simulated seconds, every eighth a token-starvation shape: waiters on one slow target's lock lose their tokens to minute-long jobs) under seeded random-walk, PCT and serial schedules with \
         select-stall faults; non-trivial = at least one preemption and one \
         script execution; distinct = distinct (scenario, preemption signature) pairs"
    }
    fn generate(&self, rng: &mut Rng, seed: u64, tier: Tier, index: u64) -> Case {
        let mut c = self.generate_plain(rng, seed, index);
        // every third scenario is also run once per sampled wake-up with that
        // wake-up held back (see `wake_plans`)
        if index % 3 == 0 {
            let n = match tier {
                Tier::Quick => 4,
                Tier::Thorough => 12,
            };
            c.meta.insert("wake_plans".into(), serde_json::json!(n));
        }
        c
    }
    fn follow_ups(&self, case: &Case, first: &RunRecord) -> Vec<Case> {
        if case.opts.stall_at.is_some() {
            return Vec::new();
        }
        match case.meta.get("wake_plans").and_then(|v| v.as_u64()) {
            Some(n) => wake_plans(case, first, n),
            None => Vec::new(),
        }
    }
    fn probes(&self, _case: &Case, rec: &RunRecord) -> BTreeMap<String, u64> {
        let mut m = BTreeMap::new();
        for g in &rec.groups {
            if g.stall_fired.is_some() {
                *m.entry("wakeup_held_back".to_string()).or_insert(0) += 1;
            }
        }
        m
    }
    fn check(&self, _case: &Case, rec: &RunRecord, _obs: &dyn Observer) -> Vec<Violation> {
        let mut v = liveness_violations(rec);
        for g in &rec.groups {
            for (k, r) in g.results.iter().enumerate() {
                if r.status != Some(0) && g.outcome == StepOutcome::AllDead {
                    // all scripts succeed in these scenarios
                    if v.iter().any(|x| x.kind == "panic") {
                        continue;
                    }
                    v.push(Violation {
                        kind: "nonzero-exit".into(),
                        detail: format!(
                            "group {} cmd {} {:?} exited {:?}; stderr: {}",
                            g.step_idx,
                            k,
                            g.cmds[k].argv,
                            r.status,
                            tail(&r.stderr, 600)
                        ),
                    });
                }
            }
        }
        v
    }
}

/// Wake-up plans (DESIGN section 3.3): one follow-up run per chosen ready
/// select/poll wake-up of a redo process in the first command group; in that
/// run the process is held back at exactly that wake-up until nothing else can
/// run, so that every child exit and token arrival that can coincide with it
/// does.  `n` points, spread evenly over the wake-ups of the recorded run.
pub fn wake_plans(case: &Case, first: &RunRecord, n: u64) -> Vec<Case> {
    let g = match first.groups.first() {
        Some(g) => g,
        None => return Vec::new(),
    };
    let m = g.wake_count;
    if m == 0 || n == 0 {
        return Vec::new();
    }
    let mut ks: Vec<u64> = Vec::new();
    if m <= n {
        ks.extend(0..m);
    } else {
        let stride = m / n;
        let off = case.seed % stride;
        for j in 0..n {
            ks.push(j * stride + off);
        }
    }
    ks.into_iter()
        .map(|k| {
            let mut c = case.clone();
            c.opts.stall_at = Some((g.step_idx, k));
            c.meta.insert("wake_plan".into(), serde_json::json!([k, m]));
            c
        })
        .collect()
}

pub fn tail(s: &str, n: usize) -> String {
    if s.len() <= n {
        return s.to_string();
    }
    let mut i = s.len() - n;
    while !s.is_char_boundary(i) {
        i += 1;
    }
    format!("...{}", &s[i..])
}

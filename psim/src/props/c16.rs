//! C16 -- concurrent commands on one project do not fail spuriously or lose state.

use super::gen::*;
use super::oracle::*;
use super::*;
use crate::dsl::*;

pub struct C16;

const BAD: [&str; 6] = [
    "database is locked",
    "database table is locked",
    "SQLITE_BUSY",
    "no such table",
    "could not connect",
    "busy",
];

impl Property for C16 {
    fn id(&self) -> &'static str {
        "C16"
    }
    fn runs(&self, tier: Tier) -> u64 {
        match tier {
            Tier::Quick => 1500,
            Tier::Thorough => 30000,
        }
    }
    fn rule(&self) -> &'static str {
        "2-6 commands (redo, redo-ifchange, redo-ood, redo-targets, redo-sources) started together or \
         at drawn later steps on one project, including on a project with no .redo directory yet; all \
         scripts succeed; every interleaving point of SQLite's own fcntl locks and writes is a \
         scheduling point and its busy handler runs on simulated time; oracle: every command exits 0, no \
         output mentions a busy/locked/missing-table/connect error, integrity_check is ok afterwards and \
         every edge declared by a script that ended with status 0 is in Deps; non-trivial = >=1 \
         preemption and >=1 script; distinct = (scenario, preemption signature)"
    }
    fn generate(&self, rng: &mut Rng, seed: u64, _tier: Tier, index: u64) -> Case {
        let mut p = GraphParams::small(rng);
        p.n_targets = rng.range(2, 6) as usize;
        p.max_work_ms = *rng.pick(&[0, 5, 50]);
        let g = gen_graph(rng, &p);
        let mut sc = g.scenario("c16");
        let fresh = index % 2 == 0;
        if !fresh {
            sc.history.push(Step::Cmds(vec![redo_cmd(
                rng,
                "redo-ifchange",
                &[g.targets[0].clone()],
                2,
                0,
            )]));
            if rng.chance(1, 2) {
                let s = rng.pick(&g.sources).clone();
                sc.history.push(Step::Write {
                    path: s.clone(),
                    bytes: source_content(&s, 1),
                });
            }
        }
        let n = rng.range(2, 6);
        let mut cmds = Vec::new();
        for k in 0..n {
            let kind = rng.below(10);
            let mut c = match kind {
                0..=2 => {
                    let t = rng.pick(&g.targets).clone();
                    redo_cmd(rng, "redo", &[t], 4, 250)
                }
                3..=5 => {
                    let t = if rng.chance(1, 2) {
                        g.top()
                    } else {
                        rng.pick(&g.targets).clone()
                    };
                    redo_cmd(rng, "redo-ifchange", &[t], 1, 250)
                }
                6 | 7 => Cmd::new(&["redo-ood"]),
                8 => Cmd::new(&["redo-targets"]),
                _ => Cmd::new(&["redo-sources"]),
            };
            if k > 0 && rng.chance(1, 3) {
                c.start_step = rng.range(20, 1200);
            }
            cmds.push(c);
        }
        if !cmds.iter().any(|c| c.argv[0] == "redo" || c.argv[0] == "redo-ifchange") {
            cmds[0] = redo_cmd(rng, "redo", &[g.top()], 4, 250);
        }
        sc.history.push(Step::Cmds(cmds));
        Case {
            property: "C16".into(),
            seed,
            scenario: sc,
            knobs: Knobs::draw(rng),
            opts: PlayOpts::default(),
            meta: BTreeMap::new(),
        }
    }
    fn check(&self, case: &Case, rec: &RunRecord, _obs: &dyn Observer) -> Vec<Violation> {
        let mut v = Vec::new();
        let g = match rec.groups.last() {
            Some(g) => g,
            None => return v,
        };
        if !judgeable(g) {
            return v;
        }
        for (k, r) in g.results.iter().enumerate() {
            let text = format!("{}\n{}", r.stdout, r.stderr);
            let bad = BAD.iter().find(|b| text.contains(**b));
            if r.status != Some(0) || bad.is_some() {
                v.push(Violation {
                    kind: if bad.is_some() {
                        "spurious-db-error".into()
                    } else {
                        "spurious-failure".into()
                    },
                    detail: format!(
                        "cmd {} {:?} (of {} concurrent) exited {:?}; stderr: {}",
                        k,
                        g.cmds[k].argv,
                        g.cmds.len(),
                        r.status,
                        c09::tail(&r.stderr, 500)
                    ),
                });
            }
        }
        if let Some(Some(db)) = rec.db_after.last() {
            if db.integrity != "ok" {
                v.push(Violation {
                    kind: "db-integrity".into(),
                    detail: db.integrity.clone(),
                });
            }
            // declared edges of every successful script execution
            let world = rec.world_after.last().unwrap();
            for r in do_runs(g) {
                if r.rc != Some(0) {
                    continue;
                }
                if let Some((cand, rule)) = world.rule_for(&r.target) {
                    for st in &rule.stmts {
                        if let Stmt::IfChange(deps) = st {
                            for d in deps {
                                if let Some(dp) = join_norm(&cand.do_dir, d) {
                                    let key = (r.target.clone(), dp.clone(), "m".to_string());
                                    if !db.deps.contains(&key) {
                                        v.push(Violation {
                                            kind: "lost-dependency-record".into(),
                                            detail: format!(
                                                "script of {} declared {} and ended with status 0, but the edge is not in the state database afterwards",
                                                r.target, dp
                                            ),
                                        });
                                    }
                                }
                            }
                        }
                    }
                }
            }
        }
        let _ = case;
        v
    }
    fn probes(&self, _case: &Case, rec: &RunRecord) -> BTreeMap<String, u64> {
        let mut m = BTreeMap::new();
        for g in &rec.groups {
            let b = g
                .events
                .iter()
                .filter(|e| e.text.starts_with("lockbusy") && e.text.contains("db.sqlite3"))
                .count() as u64;
            *m.entry("sqlite_lock_busy".to_string()).or_insert(0) += b;
        }
        m
    }
}

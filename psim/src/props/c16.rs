//! C16 -- concurrent commands on one project do not fail spuriously or lose state.

use super::gen::*;
use super::oracle::*;
use super::*;
use crate::dsl::*;

pub struct C16;

const BAD: [&str; 6] = [
    "database is locked",
    "database table is locked",
    "SQLITE_BUSY",
    "no such table",
    "could not connect",
    "busy",
];

impl Property for C16 {
    fn id(&self) -> &'static str {
        "C16"
    }
    fn runs(&self, tier: Tier) -> u64 {
        match tier {
            Tier::Quick => 1500,
            Tier::Thorough => 30000,
        }
    }
    fn rule(&self) -> &'static str {
        "2-6 commands (redo, redo-ifchange, redo-ood, redo-targets, redo-sources) started together or \
         at drawn later steps on one project (sometimes two builders naming the same two targets in opposite order; in a quarter of the scenarios half of the commands have REDO preset in their environment, as a Makefile exporting it does), including on a project with no .redo directory yet and on a built project from which generated files were removed; all \
         scripts succeed; every interleaving point of SQLite's own fcntl locks and writes is a \
         scheduling point and its busy handler runs on simulated time; oracle: every command terminates and exits 0, no \
         output mentions a busy/locked/missing-table/connect error, integrity_check is ok afterwards and \
         every edge declared by a script that ended with status 0 is in Deps; non-trivial = >=1 \
         preemption and >=1 script; distinct = (scenario, preemption signature)"
    }
    fn generate(&self, rng: &mut Rng, seed: u64, _tier: Tier, index: u64) -> Case {
        let mut p = GraphParams::small(rng);
        p.n_targets = rng.range(2, 6) as usize;
        p.max_work_ms = *rng.pick(&[0, 5, 50]);
        let g = gen_graph(rng, &p);
        let mut sc = g.scenario("c16");
        let fresh = index % 2 == 0;
        let removed_family = index % 6 == 5;
        if removed_family {
            // everything was built once, then some generated files were removed:
            // the queries meet records that say "generated" for files that are
            // gone, while builds commit next to them
            sc.history.push(Step::Cmds(vec![redo_cmd(rng, "redo-ifchange", &[g.top()], 2, 0)]));
            let mut ts = g.targets.clone();
            rng.shuffle(&mut ts);
            for t in ts.into_iter().take(rng.range(1, 2) as usize) {
                sc.history.push(Step::Remove { path: t });
            }
        } else if !fresh {
            sc.history.push(Step::Cmds(vec![redo_cmd(
                rng,
                "redo-ifchange",
                &[g.targets[0].clone()],
                2,
                0,
            )]));
            if rng.chance(1, 2) {
                let s = rng.pick(&g.sources).clone();
                sc.history.push(Step::Write {
                    path: s.clone(),
                    bytes: source_content(&s, 1),
                });
            }
        }
        let n = rng.range(2, 6);
        let mut cmds = Vec::new();
        for k in 0..n {
            let kind = rng.below(10);
            let mut c = match kind {
                0..=2 => {
                    let t = rng.pick(&g.targets).clone();
                    redo_cmd(rng, "redo", &[t], 4, 250)
                }
                3..=5 => {
                    let t = if rng.chance(1, 2) {
                        g.top()
                    } else {
                        rng.pick(&g.targets).clone()
                    };
                    redo_cmd(rng, "redo-ifchange", &[t], 1, 250)
                }
                6 | 7 => Cmd::new(&["redo-ood"]),
                8 => Cmd::new(&["redo-targets"]),
                _ => Cmd::new(&["redo-sources"]),
            };
            if k > 0 && rng.chance(1, 3) {
                c.start_step = rng.range(20, 1200);
            }
            cmds.push(c);
        }
        if index % 6 == 1 && g.targets.len() >= 2 {
            // two builders that want the same two targets in opposite order
            let mut two = g.targets.clone();
            rng.shuffle(&mut two);
            two.truncate(2);
            let prog = if rng.chance(1, 2) { "redo" } else { "redo-ifchange" };
            let a = redo_cmd(rng, prog, &two, 2, 250);
            two.reverse();
            let mut b = redo_cmd(rng, prog, &two, 2, 250);
            if rng.chance(1, 2) {
                b.start_step = rng.range(0, 300);
            }
            cmds.push(a);
            cmds.push(b);
        }
        if !cmds.iter().any(|c| c.argv[0] == "redo" || c.argv[0] == "redo-ifchange") {
            cmds[0] = redo_cmd(rng, "redo", &[g.top()], 4, 250);
        }
        if removed_family && !cmds.iter().any(|c| c.argv[0] == "redo-ood") {
            let mut c = Cmd::new(&["redo-ood"]);
            c.start_step = rng.range(0, 600);
            cmds.push(c);
        }
        if index % 4 == 2 {
            // a caller whose environment already names the redo binary (a Makefile
            // or CI job doing `export REDO=redo`) but is no sub-command of a
            // running build: such commands still allocate a run id of their own
            for c in cmds.iter_mut() {
                if rng.chance(1, 2) {
                    c.env.push(("REDO".into(), "redo".into()));
                }
            }
        }
        sc.history.push(Step::Cmds(cmds));
        Case {
            property: "C16".into(),
            seed,
            scenario: sc,
            knobs: Knobs::draw(rng),
            opts: PlayOpts::default(),
            meta: BTreeMap::new(),
        }
    }
    fn check(&self, case: &Case, rec: &RunRecord, _obs: &dyn Observer) -> Vec<Violation> {
        let mut v = Vec::new();
        let g = match rec.groups.last() {
            Some(g) => g,
            None => return v,
        };
        if !judgeable(g) {
            // a command that neither succeeds nor fails: commands waiting for
            // each other's locks forever (or aborting) is the lock error of
            // this property in its worst form
            for x in c09::liveness_violations(rec) {
                v.push(Violation {
                    kind: format!("concurrent-{}", x.kind),
                    detail: x.detail,
                });
            }
            return v;
        }
        for (k, r) in g.results.iter().enumerate() {
            let text = format!("{}\n{}", r.stdout, r.stderr);
            let bad = BAD.iter().find(|b| text.contains(**b));
            if r.status != Some(0) || bad.is_some() {
                v.push(Violation {
                    kind: if bad.is_some() {
                        "spurious-db-error".into()
                    } else {
                        "spurious-failure".into()
                    },
                    detail: format!(
                        "cmd {} {:?} (of {} concurrent) exited {:?}; stderr: {}",
                        k,
                        g.cmds[k].argv,
                        g.cmds.len(),
                        r.status,
                        c09::tail(&r.stderr, 500)
                    ),
                });
            }
        }
        if let Some(Some(db)) = rec.db_after.last() {
            if db.integrity != "ok" {
                v.push(Violation {
                    kind: "db-integrity".into(),
                    detail: db.integrity.clone(),
                });
            }
            // declared edges of every successful script execution
            let world = rec.world_after.last().unwrap();
            for r in do_runs(g) {
                if r.rc != Some(0) {
                    continue;
                }
                if let Some((cand, rule)) = world.rule_for(&r.target) {
                    for st in &rule.stmts {
                        if let Stmt::IfChange(deps) = st {
                            for d in deps {
                                if let Some(dp) = join_norm(&cand.do_dir, d) {
                                    let key = (r.target.clone(), dp.clone(), "m".to_string());
                                    if !db.deps.contains(&key) {
                                        v.push(Violation {
                                            kind: "lost-dependency-record".into(),
                                            detail: format!(
                                                "script of {} declared {} and ended with status 0, but the edge is not in the state database afterwards",
                                                r.target, dp
                                            ),
                                        });
                                    }
                                }
                            }
                        }
                    }
                }
            }
        }
        let _ = case;
        v
    }
    fn probes(&self, _case: &Case, rec: &RunRecord) -> BTreeMap<String, u64> {
        let mut m = BTreeMap::new();
        for g in &rec.groups {
            let b = g
                .events
                .iter()
                .filter(|e| e.text.starts_with("lockbusy") && e.text.contains("db.sqlite3"))
                .count() as u64;
            *m.entry("sqlite_lock_busy".to_string()).or_insert(0) += b;
        }
        m
    }
}

//! C14 -- redo-ifcreate and redo-always dependencies.

use super::c02::judge_rebuild_sets;
use super::gen::*;
use super::oracle::*;
use super::*;
use crate::dsl::*;

pub struct C14;

/// Many redo-always targets shared by several dependents, built in parallel:
/// every run must execute each of them exactly once, whoever asks first, and
/// none of the many concurrent `redo-always` calls may fail.
fn many_always_case(rng: &mut Rng, seed: u64) -> Case {
    let files = vec![
        ("s0".to_string(), source_content("s0", 0)),
        ("s1".to_string(), source_content("s1", 0)),
    ];
    let na = rng.range(4, 10) as usize;
    let mut rules: Vec<(String, Rule)> = Vec::new();
    let mut always: Vec<String> = Vec::new();
    for i in 0..na {
        let mut st = vec![Stmt::Always];
        if rng.chance(1, 2) {
            st.push(Stmt::IfChange(vec!["s1".into()]));
        }
        if rng.chance(1, 3) {
            st.push(Stmt::Work(rng.range(1, 20)));
        }
        if rng.chance(1, 4) {
            st.push(Stmt::Noise);
            st.push(Stmt::Stamp { only: vec![] });
        }
        rules.push((format!("a{}.do", i), Rule { version: 0, stmts: st }));
        always.push(format!("a{}", i));
    }
    let nd = rng.range(2, 5) as usize;
    let mut mids = Vec::new();
    for j in 0..nd {
        let mut deps = always.clone();
        rng.shuffle(&mut deps);
        deps.truncate(rng.range(2, na as u64) as usize);
        let mut st = vec![Stmt::IfChange(deps), Stmt::IfChange(vec!["s0".into()])];
        if rng.chance(1, 3) {
            st.push(Stmt::Work(rng.range(1, 20)));
        }
        rules.push((format!("m{}.do", j), Rule { version: 0, stmts: st }));
        mids.push(format!("m{}", j));
    }
    let mut top = mids.clone();
    top.push(rng.pick(&always).clone());
    rules.push((
        "top.do".into(),
        Rule {
            version: 0,
            stmts: vec![Stmt::IfChange(top)],
        },
    ));
    let mut sc = Scenario {
        family: "c14-many-always".into(),
        files,
        rules,
        ..Default::default()
    };
    let mut sver = 0;
    for k in 0..rng.range(2, 3) {
        if k > 0 && rng.chance(1, 2) {
            sver += 1;
            sc.history.push(Step::Write {
                path: "s0".into(),
                bytes: source_content("s0", sver),
            });
        }
        let prog = if rng.chance(1, 2) { "redo" } else { "redo-ifchange" };
        let mut c = redo_cmd(rng, prog, &["top".to_string()], 1, 200);
        c.argv.retain(|a| !a.starts_with("-j"));
        if prog == "redo" {
            c.argv.insert(1, format!("-j{}", rng.range(3, 8)));
        } else {
            c.make_tokens = Some(rng.range(2, 6) as u32);
        }
        sc.history.push(Step::Cmds(vec![c]));
    }
    Case {
        property: "C14".into(),
        seed,
        scenario: sc,
        knobs: Knobs::draw(rng),
        opts: PlayOpts::default(),
        meta: BTreeMap::new(),
    }
}

impl Property for C14 {
    fn id(&self) -> &'static str {
        "C14"
    }
    fn runs(&self, tier: Tier) -> u64 {
        match tier {
            Tier::Quick => 600,
            Tier::Thorough => 12000,
        }
    }
    fn rule(&self) -> &'static str {
        "graphs mixing redo-ifcreate (the `if exists ifchange else ifcreate` idiom and the bare form), \
         redo-always and redo-ifchange at depth 1-3, one always-target shared by 2-4 dependents; \
         histories of 3-9 steps creating, editing and deleting the watched paths with unrelated edits \
         in between, commands at -j1..4; oracle: SeenModel must/may sets (an ifcreate-dependent is \
         must-run in the first command after the path exists and must-not-run before; an always-target \
         needed by a command is must-run), exactly one execution of an always-target per invocation \
         however many dependents request it, a bare redo-ifcreate of an existing path fails its script \
         and the command, from-scratch freshness after successful commands; non-trivial = >=1 preemption \
         and >=1 script; distinct = (scenario, preemption signature)"
    }
    fn generate(&self, rng: &mut Rng, seed: u64, _tier: Tier, index: u64) -> Case {
        if index % 4 == 3 {
            return many_always_case(rng, seed);
        }
        let files = vec![
            ("s0".to_string(), source_content("s0", 0)),
            ("s1".to_string(), source_content("s1", 0)),
        ];
        let mut rules: Vec<(String, Rule)> = Vec::new();
        // the shared always-target
        let mut a_stmts = vec![Stmt::Always, Stmt::IfChange(vec!["s1".into()])];
        if rng.chance(1, 2) {
            a_stmts.push(Stmt::Work(rng.range(1, 30)));
        }
        if rng.chance(1, 3) {
            a_stmts.push(Stmt::Noise);
            a_stmts.push(Stmt::Stamp { only: vec![] });
        }
        rules.push(("al.do".into(), Rule { version: 0, stmts: a_stmts }));
        let nd = rng.range(2, 4) as usize;
        let watched = ["w0", "w1"];
        let mut mids = Vec::new();
        for i in 0..nd {
            let n = format!("m{}", i);
            let mut stmts = Vec::new();
            if rng.chance(2, 3) {
                stmts.push(Stmt::IfChange(vec!["al".into()]));
            }
            if rng.chance(1, 2) {
                stmts.push(Stmt::IfExists(rng.pick(&watched).to_string()));
            }
            stmts.push(Stmt::IfChange(vec!["s0".into()]));
            if rng.chance(1, 2) {
                stmts.push(Stmt::Work(rng.range(1, 30)));
            }
            rules.push((format!("{}.do", n), Rule { version: 0, stmts }));
            mids.push(n);
        }
        // a target with the bare ifcreate on w1
        let bare = rng.chance(1, 3);
        if bare {
            rules.push((
                "bare.do".into(),
                Rule {
                    version: 0,
                    stmts: vec![Stmt::IfCreate(vec!["w1".into()]), Stmt::IfChange(vec!["s0".into()])],
                },
            ));
        }
        let mut top = mids.clone();
        if rng.chance(1, 2) {
            top.push("al".into());
        }
        rules.push((
            "top.do".into(),
            Rule {
                version: 0,
                stmts: vec![Stmt::IfExists("w0".into()), Stmt::IfChange(top)],
            },
        ));
        let mut sc = Scenario {
            family: "c14".into(),
            files,
            rules,
            ..Default::default()
        };
        let mut exists = [false, false];
        let mut wver = [0u32, 0];
        let mut sver = [0u32, 0];
        let build = |rng: &mut Rng, sc: &mut Scenario, bare_ok: bool| {
            let mut ts = vec![if rng.chance(2, 3) { "top".to_string() } else { rng.pick(&mids).clone() }];
            if bare && bare_ok && rng.chance(1, 3) {
                ts = vec!["bare".to_string()];
            }
            let prog = if rng.chance(1, 6) { "redo" } else { "redo-ifchange" };
            let mut c = redo_cmd(rng, prog, &ts, 4, 100);
            if prog == "redo-ifchange" && rng.chance(1, 2) {
                c.make_tokens = Some(rng.range(1, 3) as u32);
            }
            sc.history.push(Step::Cmds(vec![c]));
        };
        build(rng, &mut sc, true);
        let steps = rng.range(3, 9);
        let mut since = 0;
        for _ in 0..steps {
            let r = rng.below(100);
            if since >= 2 || r < 40 {
                build(rng, &mut sc, true);
                since = 0;
            } else if r < 65 {
                // create or edit a watched path
                let i = rng.below(2) as usize;
                wver[i] += 1;
                exists[i] = true;
                sc.history.push(Step::Write {
                    path: watched[i].to_string(),
                    bytes: source_content(watched[i], wver[i]),
                });
                since += 1;
            } else if r < 80 {
                let i = rng.below(2) as usize;
                if exists[i] {
                    exists[i] = false;
                    sc.history.push(Step::Remove { path: watched[i].to_string() });
                    since += 1;
                }
            } else {
                let i = rng.below(2) as usize;
                sver[i] += 1;
                let n = format!("s{}", i);
                sc.history.push(Step::Write {
                    path: n.clone(),
                    bytes: source_content(&n, sver[i]),
                });
                since += 1;
            }
        }
        build(rng, &mut sc, false);
        sc.history
            .push(Step::Cmds(vec![redo_cmd(rng, "redo-ifchange", &["top".to_string()], 1, 100)]));
        Case {
            property: "C14".into(),
            seed,
            scenario: sc,
            knobs: Knobs::draw(rng),
            opts: PlayOpts::default(),
            meta: BTreeMap::new(),
        }
    }
    fn check(&self, case: &Case, rec: &RunRecord, _obs: &dyn Observer) -> Vec<Violation> {
        let mut v = judge_rebuild_sets(
            rec,
            case,
            ("ifcreate-or-always-missed", "ifcreate-or-always-needless"),
            |_, _, _, _| {},
        );
        for g in &rec.groups {
            if !judgeable(g) {
                continue;
            }
            let cmd = &g.cmds[0];
            let world = &rec.world_after[g.step_idx];
            let counts = exec_counts(g);
            for (t, n) in &counts {
                // `redo <always-target>` style forcing is not generated; one
                // execution per invocation
                let is_always = world
                    .rule_for(t)
                    .map_or(false, |(_, r)| r.stmts.iter().any(|s| matches!(s, Stmt::Always)));
                if is_always && *n != 1 {
                    v.push(Violation {
                        kind: "always-not-once".into(),
                        detail: format!(
                            "history step {} {:?}: the always-target {} was executed {} times in one invocation",
                            g.step_idx, cmd.argv, t, n
                        ),
                    });
                }
            }
            // every script of these scenarios succeeds, except the bare
            // redo-ifcreate on an existing path
            let bare_fails = cmd.targets().iter().any(|t| t == "bare") && world.exists("w1");
            if g.results[0].status != Some(0) && !bare_fails {
                v.push(Violation {
                    kind: "spurious-failure".into(),
                    detail: format!(
                        "history step {} {:?} exited {:?} although every script succeeds; stderr: {}",
                        g.step_idx,
                        cmd.argv,
                        g.results[0].status,
                        c09::tail(&g.results[0].stderr, 400)
                    ),
                });
            }
            // bare ifcreate on an existing path is an error
            if counts.contains_key("bare") && world.exists("w1") {
                let run = do_runs(g).into_iter().find(|r| r.target == "bare");
                if run.map_or(false, |r| r.rc == Some(0)) || g.results[0].status == Some(0) {
                    v.push(Violation {
                        kind: "ifcreate-existing-accepted".into(),
                        detail: format!(
                            "history step {} {:?}: redo-ifcreate w1 was accepted although w1 exists (command status {:?})",
                            g.step_idx, cmd.argv, g.results[0].status
                        ),
                    });
                }
            }
            if g.results[0].status == Some(0) {
                let ts: Vec<String> = cmd
                    .targets()
                    .iter()
                    .filter_map(|a| arg_path(&cmd.cwd, a))
                    .collect();
                v.extend(freshness(rec, g.step_idx, &ts));
            }
        }
        v
    }
    fn probes(&self, case: &Case, rec: &RunRecord) -> BTreeMap<String, u64> {
        let mut m = BTreeMap::new();
        let _ = judge_rebuild_sets(rec, case, ("a", "b"), |_, e, _, _| {
            for (_, w) in &e.why {
                if w.starts_with("ifcreate path") {
                    *m.entry("ifcreate_triggered".to_string()).or_insert(0) += 1;
                }
                if w.starts_with("declared redo-always") {
                    *m.entry("always_triggered".to_string()).or_insert(0) += 1;
                }
            }
        });
        for g in &rec.groups {
            if g.results[0].stderr.contains("already exists") {
                *m.entry("ifcreate_on_existing_rejected".to_string()).or_insert(0) += 1;
            }
        }
        m
    }
}

//! C02 -- the rebuild set is exactly the set of targets whose inputs changed.

use super::gen::*;
use super::oracle::*;
use super::spec::*;
use super::*;
use crate::dsl::*;

pub struct C02;

/// Walk a history with the reference model; report disagreements between the
/// scripts that ran and the model's must / may sets.  Only single-command,
/// judgeable, successful steps are judged; the model always follows what
/// really happened.
pub fn judge_rebuild_sets(
    rec: &RunRecord,
    case: &Case,
    kinds: (&str, &str),
    mut each: impl FnMut(&GroupRec, &Expect, &BTreeMap<String, u32>, &SeenModel),
) -> Vec<Violation> {
    let mut v = Vec::new();
    let mut m = SeenModel::default();
    let empty = BTreeMap::new();
    let mut last_expect: Option<Expect> = None;
    for g in &rec.groups {
        let world = &rec.world_after[g.step_idx];
        let fs_before = if g.step_idx == 0 { &empty } else { &rec.fs_after[g.step_idx - 1] };
        let fs_after = &rec.fs_after[g.step_idx];
        let ok = judgeable(g) && g.cmds.len() == 1;
        let cmd = &g.cmds[0];
        let builds = cmd.prog() == "redo" || cmd.prog() == "redo-ifchange";
        if ok && builds && v.is_empty() {
            let req: Vec<String> = cmd
                .targets()
                .iter()
                .filter_map(|a| arg_path(&cmd.cwd, a))
                .collect();
            // the world before the command: redo-owned files as they were
            let mut wb = world.clone();
            wb.files.retain(|_, f| f.owner == crate::model::Owner::User);
            let e = m.expect(&wb, fs_before, &req, cmd.prog() == "redo");
            let ran = exec_counts(g);
            each(g, &e, &ran, &m);
            last_expect = Some(e.clone());
            if g.results[0].status == Some(0) {
                for t in &e.must {
                    if !ran.contains_key(t) {
                        v.push(Violation {
                            kind: kinds.0.into(),
                            detail: format!(
                                "history step {} {:?}: {} was not rebuilt although {}; scripts run: {:?}",
                                g.step_idx,
                                cmd.argv,
                                t,
                                e.why.get(t).cloned().unwrap_or_default(),
                                ran.keys().collect::<Vec<_>>()
                            ),
                        });
                    }
                }
                for t in ran.keys() {
                    if !e.must.contains(t) && !e.may.contains(t) {
                        v.push(Violation {
                            kind: kinds.1.into(),
                            detail: format!(
                                "history step {} {:?}: the script of {} ran although none of its declared inputs changed since its last successful build; must-run set {:?}, may-run set {:?}",
                                g.step_idx, cmd.argv, t, e.must, e.may
                            ),
                        });
                    }
                }
            }
        }
        let _ = case;
        m.absorb(world, fs_after, &do_runs(g));
        if let Some(e) = last_expect.take() {
            let ran = exec_counts(g);
            let declined: Vec<String> = e.may.iter().filter(|t| !ran.contains_key(*t)).cloned().collect();
            if g.results[0].status == Some(0) {
                m.revalidate(&declined);
            }
        }
        if !ok {
            // after a crash or hang the model no longer knows the state
            break;
        }
    }
    v
}

impl Property for C02 {
    fn id(&self) -> &'static str {
        "C02"
    }
    fn runs(&self, tier: Tier) -> u64 {
        match tier {
            Tier::Quick => 1200,
            Tier::Thorough => 24000,
        }
    }
    fn rule(&self) -> &'static str {
        "random graphs (plain, checksummed, always, dynamic targets; specific and default.<ext>.do \
         rules) with histories of 3-9 steps: source edits, .do edits, dependency removal (a rule edit \
         drops a dependency, later that file changes), rule shadowing (a higher-priority .do is added, \
         the chosen one removed), target removal, unchanged repeats; one failure-free command per step \
         (redo-ifchange of 1-2 targets or redo of one); oracle: the reference model SeenModel (what \
         each target consumed at its last successful build vs. what those inputs are now per the \
         from-scratch evaluator) gives must-run, may-run (a plain dependency rebuilt to identical bytes) \
         and must-not-run sets; must ⊆ scripts run ⊆ must ∪ may, nothing twice; non-trivial = >=1 \
         preemption and >=1 script; distinct = (scenario, preemption signature)"
    }
    fn generate(&self, rng: &mut Rng, seed: u64, _tier: Tier, _index: u64) -> Case {
        let mut p = GraphParams::small(rng);
        p.n_targets = rng.range(3, 7) as usize;
        p.n_sources = rng.range(2, 3) as usize;
        p.csum_pm = *rng.pick(&[0, 300, 500]);
        p.always_pm = *rng.pick(&[0, 0, 200]);
        p.max_work_ms = 0;
        let mut g = gen_graph(rng, &p);
        // some targets with an extension are built by a default rule instead
        let mut shadowable: Vec<usize> = Vec::new();
        for i in 0..g.targets.len() {
            if g.targets[i].ends_with(".o") && rng.chance(1, 2) {
                // default.o.do cannot express per-target deps; give it the deps of this one
                if !g.rules.iter().any(|(p, _)| p == "default.o.do") {
                    g.rules[i].0 = "default.o.do".to_string();
                    shadowable.push(i);
                }
            }
        }
        let mut sc = g.scenario("c02");
        let mut src_ver = vec![0u32; g.sources.len()];
        let mut rule_ver = 0u32;
        let top = g.top();
        let first = redo_cmd(rng, "redo-ifchange", &[top.clone()], 3, 100);
        sc.history.push(Step::Cmds(vec![first]));
        let steps = rng.range(3, 9);
        let mut since = 0;
        for _ in 0..steps {
            let r = rng.below(100);
            if since >= 2 || r < 35 {
                // build
                let t = if rng.chance(2, 3) { top.clone() } else { rng.pick(&g.targets).clone() };
                let c = if rng.chance(1, 5) {
                    redo_cmd(rng, "redo", &[t], 3, 100)
                } else {
                    let mut ts = vec![t];
                    if rng.chance(1, 4) {
                        ts.push(rng.pick(&g.targets).clone());
                    }
                    redo_cmd(rng, "redo-ifchange", &ts, 1, 100)
                };
                sc.history.push(Step::Cmds(vec![c]));
                since = 0;
            } else if r < 55 {
                let i = rng.below(g.sources.len() as u64) as usize;
                src_ver[i] += 1;
                sc.history.push(Step::Write {
                    path: g.sources[i].clone(),
                    bytes: source_content(&g.sources[i], src_ver[i]),
                });
                since += 1;
            } else if r < 65 {
                // plain rule edit
                let i = rng.below(g.rules.len() as u64) as usize;
                let path = g.rules[i].0.clone();
                if let Some(mut rule) = current_rule(&sc, &path) {
                    rule_ver += 1;
                    rule.version = 100 + rule_ver;
                    sc.history.push(Step::SetRule { path, rule: Some(rule) });
                    since += 1;
                }
            } else if r < 78 {
                // drop one dependency from a rule that has several
                let i = rng.below(g.rules.len() as u64) as usize;
                let path = g.rules[i].0.clone();
                if let Some(mut rule) = current_rule(&sc, &path) {
                    let mut done = false;
                    for st in rule.stmts.iter_mut() {
                        if let Stmt::IfChange(v) = st {
                            if v.len() >= 2 {
                                let k = rng.below(v.len() as u64) as usize;
                                v.remove(k);
                                done = true;
                                break;
                            }
                        }
                    }
                    if done {
                        rule_ver += 1;
                        rule.version = 100 + rule_ver;
                        sc.history.push(Step::SetRule { path, rule: Some(rule) });
                        since += 1;
                    }
                }
            } else if r < 88 && !shadowable.is_empty() {
                // shadow the default rule with a specific one, or take it away again
                let i = *rng.pick(&shadowable);
                let path = format!("{}.do", g.targets[i]);
                let exists = current_rule(&sc, &path).is_some();
                if exists {
                    sc.history.push(Step::SetRule { path, rule: None });
                } else {
                    rule_ver += 1;
                    sc.history.push(Step::SetRule {
                        path,
                        rule: Some(Rule {
                            version: 100 + rule_ver,
                            stmts: vec![Stmt::IfChange(vec![g.sources[0].clone()])],
                        }),
                    });
                }
                since += 1;
            } else {
                let t = rng.pick(&g.targets).clone();
                sc.history.push(Step::Remove { path: t });
                since += 1;
            }
        }
        sc.history
            .push(Step::Cmds(vec![redo_cmd(rng, "redo-ifchange", &[top.clone()], 1, 100)]));
        // the last command once more: nothing may run
        sc.history
            .push(Step::Cmds(vec![redo_cmd(rng, "redo-ifchange", &[top], 1, 100)]));
        Case {
            property: "C02".into(),
            seed,
            scenario: sc,
            knobs: Knobs::draw(rng),
            opts: PlayOpts::default(),
            meta: BTreeMap::new(),
        }
    }
    fn check(&self, case: &Case, rec: &RunRecord, _obs: &dyn Observer) -> Vec<Violation> {
        let mut v = judge_rebuild_sets(rec, case, ("needed-rebuild-skipped", "needless-rebuild"), |_, _, _, _| {});
        for g in &rec.groups {
            if judgeable(g) && g.cmds[0].prog() != "redo" {
                for (t, n) in exec_counts(g) {
                    if n > 1 {
                        v.push(Violation {
                            kind: "built-twice".into(),
                            detail: format!("history step {} {:?}: {} executed {} times", g.step_idx, g.cmds[0].argv, t, n),
                        });
                    }
                }
            }
        }
        v
    }
    fn probes(&self, case: &Case, rec: &RunRecord) -> BTreeMap<String, u64> {
        let mut m = BTreeMap::new();
        let _ = judge_rebuild_sets(rec, case, ("a", "b"), |_, e, ran, _| {
            *m.entry("commands_judged".to_string()).or_insert(0) += 1;
            *m.entry("must_run_targets".to_string()).or_insert(0) += e.must.len() as u64;
            *m.entry("may_run_targets".to_string()).or_insert(0) += e.may.len() as u64;
            let mr = e.may.iter().filter(|t| ran.contains_key(*t)).count() as u64;
            *m.entry("may_run_targets_that_ran".to_string()).or_insert(0) += mr;
            if e.must.is_empty() && ran.is_empty() {
                *m.entry("commands_running_nothing".to_string()).or_insert(0) += 1;
            }
        });
        m
    }
}

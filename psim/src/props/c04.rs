//! C04 -- targets are replaced atomically and only by complete, unambiguous output.

use super::gen::*;
use super::*;
use crate::dsl::*;
use crate::model::*;
use crate::sim::Sim;
use std::os::unix::fs::MetadataExt;

pub struct C04;

#[derive(Clone, Debug)]
pub struct Obs {
    pub step: u64,
    pub group: usize,
    /// None = path absent
    pub file: Option<(u64, String, usize)>, // (inode, digest of full bytes, length)
}

/// Per-step watcher of a few paths: records every distinct state a reader
/// could see, and checks that the bytes under one inode never change.
pub struct FsWatcher {
    pub root: std::path::PathBuf,
    pub paths: Vec<String>,
    last_meta: BTreeMap<String, Option<(u64, u64, i64, i64)>>,
    pub obs: BTreeMap<String, Vec<Obs>>,
    ino_digest: BTreeMap<u64, (String, usize)>,
    pub inode_changed: Vec<String>,
    pub temp_seen_after: Vec<String>,
}

impl FsWatcher {
    pub fn new(paths: Vec<String>) -> FsWatcher {
        FsWatcher {
            root: Default::default(),
            paths,
            last_meta: BTreeMap::new(),
            obs: BTreeMap::new(),
            ino_digest: BTreeMap::new(),
            inode_changed: Vec::new(),
            temp_seen_after: Vec::new(),
        }
    }
    fn full_digest(b: &[u8]) -> String {
        let mut h: u64 = 0xcbf29ce484222325;
        for x in b {
            h ^= *x as u64;
            h = h.wrapping_mul(0x100000001b3);
        }
        format!("{:016x}", h)
    }
    pub fn digest_of(b: &[u8]) -> (String, usize) {
        (FsWatcher::full_digest(b), b.len())
    }
    fn look(&mut self, step: u64, group: usize) {
        for p in self.paths.clone() {
            let full = self.root.join(&p);
            let meta = std::fs::symlink_metadata(&full)
                .ok()
                .filter(|m| m.is_file() || m.file_type().is_symlink())
                .map(|m| (m.ino(), m.size(), m.mtime(), m.mtime_nsec()));
            if self.last_meta.get(&p) == Some(&meta) {
                continue;
            }
            self.last_meta.insert(p.clone(), meta);
            let file = match meta {
                None => None,
                Some((ino, _, _, _)) => {
                    let b = match std::fs::read_link(&full) {
                        Ok(dest) => symlink_bytes(&dest.to_string_lossy()),
                        Err(_) => std::fs::read(&full).unwrap_or_default(),
                    };
                    let (d, n) = FsWatcher::digest_of(&b);
                    if let Some((od, on)) = self.ino_digest.get(&ino) {
                        if (od, on) != (&d, &n) {
                            self.inode_changed.push(format!(
                                "group {} step {}: the bytes of {} changed in place (inode {}: {} bytes -> {} bytes)",
                                group, step, p, ino, on, n
                            ));
                        }
                    }
                    self.ino_digest.insert(ino, (d.clone(), n));
                    Some((ino, d, n))
                }
            };
            self.obs.entry(p).or_default().push(Obs { step, group, file });
        }
    }
}

impl Observer for FsWatcher {
    fn group_start(&mut self, group: usize, root: &std::path::Path) {
        self.root = root.to_path_buf();
        self.look(0, group);
    }
    fn at_quiescent(&mut self, sim: &Sim, group: usize) {
        self.look(sim.step, group);
    }
}

const SIZES: [usize; 6] = [0, 1, 4095, 4096, 65537, 1 << 20];
const BEHAVIOURS: [&str; 12] = [
    "stdout", "file", "none", "both", "direct", "rm3", "fail-partial", "killself", "append", "link",
    "linkboth", "dir3",
];
const NB: usize = BEHAVIOURS.len();
const CELLS: u64 = (NB * 6 * 3) as u64;
const PRIORS: [&str; 3] = ["absent", "user", "generated"];

fn behaviour_rule(b: &str, size: usize, version: u32, dep: bool) -> Rule {
    let mut stmts = Vec::new();
    if dep {
        stmts.push(Stmt::IfChange(vec!["s0".into()]));
    }
    let pad = size;
    match b {
        "stdout" => stmts.push(Stmt::Out { mode: OutMode::Stdout, pad }),
        "file" => stmts.push(Stmt::Out { mode: OutMode::File, pad }),
        "none" => stmts.push(Stmt::Out { mode: OutMode::None, pad }),
        "both" => stmts.push(Stmt::Out { mode: OutMode::Both, pad }),
        "direct" => stmts.push(Stmt::Out { mode: OutMode::Direct, pad }),
        "rm3" => stmts.push(Stmt::Out { mode: OutMode::Rm3, pad }),
        "append" => stmts.push(Stmt::Out { mode: OutMode::Append, pad }),
        "link" => stmts.push(Stmt::Out { mode: OutMode::Link, pad }),
        "dir3" => stmts.push(Stmt::Out { mode: OutMode::Dir3, pad }),
        "linkboth" => stmts.push(Stmt::Out { mode: OutMode::LinkBoth, pad: pad.max(1) }),
        "fail-partial" => {
            stmts.push(Stmt::Out { mode: if size % 2 == 0 { OutMode::Stdout } else { OutMode::File }, pad });
            stmts.push(Stmt::FailIf { flag: "on".into(), code: 5, partial: true, direct: false });
        }
        "killself" => {
            stmts.push(Stmt::Out { mode: if size % 2 == 0 { OutMode::File } else { OutMode::Stdout }, pad });
            stmts.push(Stmt::KillSelf(if size % 3 == 0 { 9 } else { 15 }));
        }
        _ => {}
    }
    Rule { version, stmts }
}

impl Property for C04 {
    fn id(&self) -> &'static str {
        "C04"
    }
    fn level(&self) -> &'static str {
        "fault_enumeration"
    }
    fn runs(&self, tier: Tier) -> u64 {
        match tier {
            // the cross product 12 behaviours x 6 sizes x 3 prior states = 216 cells;
            // thorough walks every cell several times with different schedules and
            // kill points, quick samples each cell at least once
            Tier::Quick => 12 * CELLS,
            Tier::Thorough => 120 * CELLS,
        }
    }
    fn rule(&self) -> &'static str {
        "cells of {stdout,$3,none,both,writes $1,creates+deletes $3,exit!=0 after partial output,killed \
         by own signal,appends to $3,$3 is a dangling symlink,stdout and a dangling-symlink $3,$3 is a directory} x sizes {0,1,4095,4096,65537,1MiB} x prior state {absent,user file,\
         previously generated}; cell = run_index mod 216 (every cell enumerated); odd rounds additionally \
         SIGKILL the script at a drawn yield (run_index/216 walks the yields); every third round a stale \
         <target>.redo.tmp (file or directory, as a killed earlier run leaves it) exists beforehand; per-step watcher records every state \
         of the target a reader can see; oracle: final bytes and status per cell, previous content kept \
         on any failure, no *.redo.tmp left (file or directory), no abort of the builder, every observed state is the previous complete content, \
         absence or the complete new content, bytes under one inode never change; non-trivial = the \
         script executed or redo refused an existing user file; distinct = (cell, kill point, schedule \
         signature)"
    }
    fn generate(&self, rng: &mut Rng, seed: u64, _tier: Tier, index: u64) -> Case {
        let cell = (index % CELLS) as usize;
        let round = index / CELLS;
        let b = BEHAVIOURS[cell % NB];
        let size = SIZES[(cell / NB) % 6];
        let prior = PRIORS[cell / (NB * 6)];
        let dep = rng.chance(1, 2);
        let mut sc = Scenario {
            family: "c04".into(),
            files: vec![
                ("s0".into(), source_content("s0", 0)),
                ("on".into(), b"1\n".to_vec()),
            ],
            ..Default::default()
        };
        let mut meta = BTreeMap::new();
        meta.insert("behaviour".into(), serde_json::json!(b));
        meta.insert("size".into(), serde_json::json!(size));
        meta.insert("prior".into(), serde_json::json!(prior));
        match prior {
            "user" => sc.files.push(("t".into(), b"user content\n".to_vec())),
            "generated" => {
                // an earlier successful build with another rule version
                sc.rules.push((
                    "t.do".into(),
                    Rule {
                        version: 0,
                        stmts: vec![Stmt::Out { mode: OutMode::Stdout, pad: 100 }],
                    },
                ));
                sc.history
                    .push(Step::Cmds(vec![redo_cmd(rng, "redo", &["t".to_string()], 1, 0)]));
            }
            _ => {}
        }
        let rule = behaviour_rule(b, size, 1, dep);
        if prior == "generated" {
            sc.history.push(Step::SetRule {
                path: "t.do".into(),
                rule: Some(rule),
            });
        } else {
            sc.rules.push(("t.do".into(), rule));
        }
        let prog = if rng.chance(1, 2) { "redo" } else { "redo-ifchange" };
        if round % 3 == 2 && prior != "user" {
            // what a redo killed during an earlier build of t can leave behind
            // (a file, or -- every other time -- the directory a script made of $3)
            sc.history.push(Step::Write {
                path: if round % 6 == 5 { "t.redo.tmp/junk".into() } else { "t.redo.tmp".into() },
                bytes: b"STALE PARTIAL OUTPUT OF A KILLED RUN\n".to_vec(),
            });
            meta.insert("stale_tmp".into(), serde_json::json!(true));
        }
        let judged = sc.history.len();
        sc.history
            .push(Step::Cmds(vec![redo_cmd(rng, prog, &["t".to_string()], 2, 300)]));
        meta.insert("judged_group".into(), serde_json::json!(judged));
        let mut opts = PlayOpts::default();
        if round % 2 == 1 && prior != "user" {
            // kill the script at a walked yield
            opts.kill_at = Some((judged, (round / 2) % 40, false));
            opts.kill_scripts = true;
            meta.insert("script_kill".into(), serde_json::json!(true));
        }
        Case {
            property: "C04".into(),
            seed,
            scenario: sc,
            knobs: Knobs::draw(rng),
            opts,
            meta,
        }
    }
    fn observer(&self, _case: &Case) -> Box<dyn Observer> {
        Box::new(FsWatcher::new(vec!["t".into(), "t.redo.tmp".into()]))
    }
    fn nontrivial(&self, _case: &Case, rec: &RunRecord) -> bool {
        rec.groups.last().map_or(false, |g| {
            g.events.iter().any(|e| e.text.starts_with("do-begin"))
                || g.results[0].stderr.contains("not redoing")
                || g.results[0].stderr.contains("not marked as generated")
        })
    }
    fn signature(&self, case: &Case, rec: &RunRecord) -> u64 {
        let mut h = crate::rng::hash_str(&format!("{:?}{:?}", case.meta, case.opts.kill_at));
        for g in &rec.groups {
            h = crate::rng::mix(&[h, g.sched_sig]);
        }
        h
    }
    fn check(&self, case: &Case, rec: &RunRecord, obs: &dyn Observer) -> Vec<Violation> {
        let mut v = Vec::new();
        let w: &FsWatcher = unsafe { &*(obs as *const dyn Observer as *const FsWatcher) };
        let jg = case.meta["judged_group"].as_u64().unwrap() as usize;
        let b = case.meta["behaviour"].as_str().unwrap();
        let prior = case.meta["prior"].as_str().unwrap();
        let g = match rec.groups.iter().find(|g| g.step_idx == jg) {
            Some(g) => g,
            None => return v,
        };
        if let Some(p) = has_panic(g) {
            // an abort of the builder leaves the temporary output and the
            // target's record to chance
            v.push(Violation {
                kind: "builder-abort".into(),
                detail: format!("[{} size={} prior={}] {}; stderr: {}", b, case.meta["size"], prior, p, c09::tail(&g.results[0].stderr, 300)),
            });
            return v;
        }
        if !super::oracle::judgeable(g) {
            return v;
        }
        let desc = format!(
            "[{} size={} prior={}{}{}]",
            b,
            case.meta["size"],
            prior,
            if case.meta.contains_key("stale_tmp") { " stale-tmp" } else { "" },
            g.kill_fired.as_ref().map(|k| format!(" {}", k)).unwrap_or_default()
        );
        // what was there before the judged command
        let before: Option<Vec<u8>> = if jg == 0 {
            case.scenario
                .files
                .iter()
                .find(|(p, _)| p == "t")
                .map(|(_, b)| b.clone())
        } else {
            rec.fs_after[jg - 1].get("t").map(|s| s.bytes.clone())
        };
        let after = rec.fs_after[jg].get("t").map(|s| s.bytes.clone());
        let world = &rec.world_after[jg];
        let script_ran = g.events.iter().any(|e| e.text.starts_with("do-begin"));
        let killed = g.kill_fired.is_some();
        let expected_new: Option<Result<Built, EvalErr>> = if prior == "user" {
            None
        } else {
            Some(world.eval("t"))
        };
        let st = g.results[0].status;
        // expected status and final content
        let (want_zero, want_final): (bool, Option<Option<Vec<u8>>>) = if prior == "user" {
            (true, Some(before.clone()))
        } else if killed {
            // a script that writes $1 itself has changed the target by its own
            // doing before it was killed; redo cannot undo that
            (false, if b == "direct" { None } else { Some(before.clone()) })
        } else if b == "dir3" && before.is_some() {
            // a directory cannot be renamed over the existing file: the command
            // fails and the previous content stays
            (false, Some(before.clone()))
        } else {
            match expected_new.as_ref().unwrap() {
                Ok(Built::Bytes(nb)) => (true, Some(Some(nb.clone()))),
                Ok(Built::Absent) => (true, Some(None)),
                Err(_) => (
                    false,
                    if b == "direct" {
                        // the script itself overwrote $1; redo cannot undo that
                        None
                    } else {
                        Some(before.clone())
                    },
                ),
            }
        };
        if killed && !script_ran {
            // the drawn kill point lay beyond the script's life; nothing was injected
        }
        if want_zero != (st == Some(0)) {
            v.push(Violation {
                kind: "wrong-status".into(),
                detail: format!("{} {:?} exited {:?}; stderr: {}", desc, g.cmds[0].argv, st, c09::tail(&g.results[0].stderr, 300)),
            });
        }
        if !killed && prior != "user" {
            let want_code = match b {
                "both" | "linkboth" => Some(207),
                "direct" => Some(206),
                _ => None,
            };
            if let Some(c) = want_code {
                let job_rc = g
                    .results[0]
                    .stderr
                    .contains(&format!("exit code {}", c));
                if !job_rc {
                    v.push(Violation {
                        kind: "wrong-status".into(),
                        detail: format!("{} expected the documented status {} for the target; stderr: {}", desc, c, c09::tail(&g.results[0].stderr, 300)),
                    });
                }
            }
        }
        if let Some(wf) = &want_final {
            if &after != wf {
                v.push(Violation {
                    kind: "wrong-final-content".into(),
                    detail: format!(
                        "{} target after the command: {}; expected: {}",
                        desc,
                        after.as_ref().map(|b| format!("{} bytes {}{}", b.len(), FsWatcher::digest_of(b).0, if b.starts_with(b"@symlink") { format!(" ({})", String::from_utf8_lossy(b).trim_end()) } else { String::new() })).unwrap_or("absent".into()),
                        wf.as_ref().map(|b| format!("{} bytes {}", b.len(), FsWatcher::digest_of(b).0)).unwrap_or("absent".into()),
                    ),
                });
            }
        }
        if rec.fs_after[jg].keys().any(|k| k.contains(".redo.tmp")) {
            v.push(Violation {
                kind: "temp-left-behind".into(),
                detail: format!("{} a *.redo.tmp file is left after the command: {:?}", desc, rec.fs_after[jg].keys().filter(|k| k.contains(".redo.tmp")).collect::<Vec<_>>()),
            });
        }
        // every state a reader could see
        if b != "direct" {
            for x in &w.inode_changed {
                if x.contains(" of t changed") {
                    v.push(Violation {
                        kind: "written-in-place".into(),
                        detail: format!("{} {}", desc, x),
                    });
                }
            }
            let mut allowed: Vec<Option<(String, usize)>> = vec![before.as_ref().map(|b| FsWatcher::digest_of(b))];
            if let Some(Some(nb)) = &want_final {
                allowed.push(Some(FsWatcher::digest_of(nb)));
            }
            if let Some(Ok(Built::Bytes(nb))) = &expected_new {
                allowed.push(Some(FsWatcher::digest_of(nb)));
            }
            // absence is a complete state too (no output / first build)
            allowed.push(None);
            if let Some(os) = w.obs.get("t") {
                for o in os.iter().filter(|o| o.group == jg) {
                    let seen = o.file.as_ref().map(|(_, d, n)| (d.clone(), *n));
                    if !allowed.contains(&seen) {
                        v.push(Violation {
                            kind: "partial-target-visible".into(),
                            detail: format!(
                                "{} at step {} the target showed {} which is neither the previous nor the new complete content",
                                desc,
                                o.step,
                                seen.map(|(d, n)| format!("{} bytes {}", n, d)).unwrap_or("absent".into())
                            ),
                        });
                        break;
                    }
                    // absence while a previous generated file exists and the script failed
                    if seen.is_none() && before.is_some() && !want_zero && after.is_some() {
                        v.push(Violation {
                            kind: "partial-target-visible".into(),
                            detail: format!("{} at step {} the previous target was temporarily absent", desc, o.step),
                        });
                        break;
                    }
                }
            }
        }
        v
    }
    fn probes(&self, case: &Case, rec: &RunRecord) -> BTreeMap<String, u64> {
        let mut m = BTreeMap::new();
        if let Some(g) = rec.groups.last() {
            if g.kill_fired.is_some() {
                *m.entry("script_killed_by_simulator".to_string()).or_insert(0) += 1;
            }
            let cell = format!(
                "cell_{}_{}_{}",
                case.meta["behaviour"].as_str().unwrap_or(""),
                case.meta["size"],
                case.meta["prior"].as_str().unwrap_or("")
            );
            *m.entry(cell).or_insert(0) += 1;
        }
        m
    }
}

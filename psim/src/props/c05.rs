//! C05 -- failures propagate, are remembered as dirty, and are retried next run.

use super::gen::*;
use super::oracle::*;
use super::*;
use crate::dsl::*;
use crate::model::*;
use crate::sim::{Class, EvKind};

pub struct C05;

fn in_cone(w: &World, t: &str) -> bool {
    matches!(w.eval(t), Err(EvalErr::Fail(_)))
}

impl Property for C05 {
    fn id(&self) -> &'static str {
        "C05"
    }
    fn runs(&self, tier: Tier) -> u64 {
        match tier {
            Tier::Quick => 1200,
            Tier::Thorough => 24000,
        }
    }
    fn rule(&self) -> &'static str {
        "random graphs with 1-3 scripts failing by flag (at the first build or at a later rebuild, \
         before or after their own dependencies, with or without partial output), requested in every \
         order by redo/redo-ifchange with and without --keep-going at -j1..4; history: failing build, \
         identical repeat, repair, build; oracle: non-zero exit of the top-level command and of every \
         redo-ifchange that named a target in the failure cone, zero exit otherwise, <=1 execution per \
         target per invocation, failed targets executed again by the repeat, -k builds every requested \
         target outside the cone fresh, no job forked by a redo process after it reaped a failed job \
         (without -k), no process outlives its top-level command, freshness after the repaired build; \
         non-trivial = >=1 preemption and >=1 script; distinct = (scenario, preemption signature)"
    }
    fn generate(&self, rng: &mut Rng, seed: u64, _tier: Tier, index: u64) -> Case {
        let mut p = GraphParams::small(rng);
        p.n_targets = rng.range(3, 7) as usize;
        p.max_work_ms = *rng.pick(&[0, 5, 50]);
        p.csum_pm = *rng.pick(&[0, 0, 300]);
        let mut g = gen_graph(rng, &p);
        let nfail = rng.range(1, 3) as usize;
        let flags = add_fail_flags(rng, &mut g, nfail);
        let mut sc = g.scenario("c05");
        let later = index % 2 == 1;
        let keep_going = rng.chance(1, 2);
        let mk = |rng: &mut Rng, g: &Graph| -> Cmd {
            let mut ts = vec![g.top()];
            for _ in 0..rng.below(3) {
                let t = rng.pick(&g.targets).clone();
                if !ts.contains(&t) {
                    ts.push(t);
                }
            }
            rng.shuffle(&mut ts);
            let prog = if rng.chance(1, 2) { "redo" } else { "redo-ifchange" };
            let mut c = redo_cmd(rng, prog, &ts, 4, 200);
            if keep_going {
                if prog == "redo" {
                    c.argv.insert(1, "-k".into());
                } else {
                    c.env.push(("REDO_KEEP_GOING".into(), "1".into()));
                }
            }
            if prog == "redo-ifchange" && rng.chance(1, 2) {
                c.make_tokens = Some(rng.range(1, 3) as u32);
            }
            c
        };
        let on: Vec<usize> = (0..flags.len()).filter(|_| rng.chance(2, 3)).collect();
        let on = if on.is_empty() { vec![0] } else { on };
        let set_flags = |sc: &mut Scenario, v: bool| {
            for i in &on {
                sc.history.push(Step::Write {
                    path: flags[*i].0.clone(),
                    bytes: if v { b"1\n".to_vec() } else { b"0\n".to_vec() },
                });
            }
        };
        if later {
            sc.history.push(Step::Cmds(vec![redo_cmd(rng, "redo-ifchange", &[g.top()], 3, 200)]));
            let s = rng.pick(&g.sources).clone();
            sc.history.push(Step::Write {
                path: s.clone(),
                bytes: source_content(&s, 1),
            });
        }
        set_flags(&mut sc, true);
        let failing = mk(rng, &g);
        let mut meta = BTreeMap::new();
        meta.insert("fail_group".into(), serde_json::json!(sc.history.len()));
        sc.history.push(Step::Cmds(vec![failing.clone()]));
        meta.insert("repeat_group".into(), serde_json::json!(sc.history.len()));
        sc.history.push(Step::Cmds(vec![failing.clone()]));
        set_flags(&mut sc, false);
        meta.insert("repair_group".into(), serde_json::json!(sc.history.len()));
        let mut repaired = failing;
        if rng.chance(1, 2) {
            repaired = redo_cmd(rng, "redo-ifchange", &repaired.targets(), 3, 200);
        }
        sc.history.push(Step::Cmds(vec![repaired]));
        meta.insert("keep_going".into(), serde_json::json!(keep_going));
        Case {
            property: "C05".into(),
            seed,
            scenario: sc,
            knobs: Knobs::draw(rng),
            opts: PlayOpts::default(),
            meta,
        }
    }
    fn check(&self, case: &Case, rec: &RunRecord, _obs: &dyn Observer) -> Vec<Violation> {
        let mut v = Vec::new();
        let geti = |k: &str| case.meta.get(k).and_then(|x| x.as_u64()).unwrap_or(u64::MAX) as usize;
        let fail_g = geti("fail_group");
        let repeat_g = geti("repeat_group");
        let repair_g = geti("repair_group");
        let keep_going = case
            .meta
            .get("keep_going")
            .and_then(|x| x.as_bool())
            .unwrap_or(false);
        let mut failed_first: Vec<String> = Vec::new();
        for g in &rec.groups {
            if !judgeable(g) {
                continue;
            }
            let world = &rec.world_after[g.step_idx];
            let cmd = &g.cmds[0];
            let req: Vec<String> = cmd
                .targets()
                .iter()
                .filter_map(|a| arg_path(&cmd.cwd, a))
                .collect();
            let cone: Vec<&String> = req.iter().filter(|t| in_cone(world, t)).collect();
            let st = g.results[0].status;
            // at most one execution per target per invocation
            for (t, n) in exec_counts(g) {
                if n > 1 && cmd.prog() != "redo" {
                    v.push(Violation {
                        kind: "failed-target-run-twice".into(),
                        detail: format!("group {} {:?}: {} executed {} times", g.step_idx, cmd.argv, t, n),
                    });
                }
            }
            if !cone.is_empty() && st == Some(0) {
                v.push(Violation {
                    kind: "failure-not-propagated".into(),
                    detail: format!(
                        "group {} {:?} exited 0 although {:?} cannot be built (a script it needs exits non-zero)",
                        g.step_idx, cmd.argv, cone
                    ),
                });
            }
            if cone.is_empty() && st != Some(0) {
                v.push(Violation {
                    kind: "spurious-failure".into(),
                    detail: format!(
                        "group {} {:?} exited {:?} although every requested target is buildable; stderr: {}",
                        g.step_idx,
                        cmd.argv,
                        st,
                        c09::tail(&g.results[0].stderr, 500)
                    ),
                });
            }
            // every redo-ifchange process that named a cone target fails
            let mut nested_ok: Vec<String> = Vec::new();
            for e in &g.events {
                if let EvKind::Op(Class::Proc) = e.kind {
                    if let Some(rest) = e.text.strip_prefix("exec redo-ifchange ") {
                        let p = match g.procs.iter().find(|p| p.lid == e.lid) {
                            Some(p) => p,
                            None => continue,
                        };
                        // cwd of the process: from the do-begin of its parent script
                        let parent = e.lid.rfind('.').map(|i| &e.lid[..i]).unwrap_or("");
                        let cwd = do_runs(g)
                            .iter()
                            .find(|r| r.lid == parent)
                            .map(|r| r.cwd.clone());
                        let cwd = match cwd {
                            Some(c) => c,
                            None => continue,
                        };
                        let named: Vec<String> = rest
                            .split(' ')
                            .filter_map(|a| arg_path(&cwd, a))
                            .collect();
                        let bad: Vec<&String> = named.iter().filter(|t| in_cone(world, t)).collect();
                        if keep_going {
                            // --keep-going holds for the redo-ifchange calls of the
                            // scripts as well: what they name outside the failure
                            // cone is still built
                            for t in named.iter().filter(|t| !in_cone(world, t)) {
                                if !nested_ok.contains(t) {
                                    nested_ok.push(t.clone());
                                }
                            }
                        }
                        if !bad.is_empty() && p.status == Some(0) {
                            v.push(Violation {
                                kind: "failure-not-propagated".into(),
                                detail: format!(
                                    "group {}: process {} `redo-ifchange {}` exited 0 although {:?} cannot be built",
                                    g.step_idx, e.lid, rest, bad
                                ),
                            });
                        }
                    }
                }
            }
            // no process of the command outlives its top-level process
            if let Some(top) = g.procs.iter().find(|p| p.lid == "c0") {
                if let Some(td) = top.died_step {
                    for p in &g.procs {
                        if p.lid != "c0" && p.died_step.map_or(true, |d| d > td) {
                            v.push(Violation {
                                kind: "orphan-after-exit".into(),
                                detail: format!(
                                    "group {} {:?}: {} ({} {}) was still running when the top-level command exited at step {}",
                                    g.step_idx, cmd.argv, p.lid, p.name, p.target, td
                                ),
                            });
                            break;
                        }
                    }
                }
            }
            // without -k: no job forked after a failed job was reaped
            if !keep_going {
                let runs = do_runs(g);
                let mut seen_fail: BTreeMap<&str, u64> = BTreeMap::new();
                for e in &g.events {
                    match &e.kind {
                        EvKind::Info if e.text.starts_with("waited ") => {
                            let w: Vec<&str> = e.text.split(' ').collect();
                            if w.len() >= 3 && w[2] != "0" {
                                // only jobs count: scripts and redo-unlocked
                                let is_job = runs.iter().any(|r| r.lid == w[1])
                                    || g.procs.iter().any(|p| p.lid == w[1] && p.name == "redo-unlocked");
                                let is_redo = g
                                    .procs
                                    .iter()
                                    .any(|p| p.lid == e.lid && p.name.starts_with("redo"));
                                if is_job && is_redo {
                                    seen_fail.entry(e.lid.as_str()).or_insert(e.step);
                                }
                            }
                        }
                        EvKind::Op(Class::Proc) if e.text == "fork" => {
                            if let Some(s) = seen_fail.get(e.lid.as_str()) {
                                v.push(Violation {
                                    kind: "started-after-failure".into(),
                                    detail: format!(
                                        "group {} {:?}: {} forked a new job at step {} after it had reaped a failed job at step {} (no --keep-going)",
                                        g.step_idx, cmd.argv, e.lid, e.step, s
                                    ),
                                });
                            }
                        }
                        _ => {}
                    }
                }
            }
            // -k: everything requested outside the cone is built
            if keep_going && st != Some(0) {
                let mut ok: Vec<String> = req.iter().filter(|t| !in_cone(world, t)).cloned().collect();
                for t in nested_ok {
                    if !ok.contains(&t) {
                        ok.push(t);
                    }
                }
                let mut f = freshness(rec, g.step_idx, &ok);
                for x in f.iter_mut() {
                    x.kind = "keep-going-skipped".into();
                    x.detail = format!("{:?} (--keep-going): {}", cmd.argv, x.detail);
                }
                v.extend(f);
            }
            if g.step_idx == fail_g {
                failed_first = do_runs(g)
                    .iter()
                    .filter(|r| r.rc.map_or(false, |c| c != 0))
                    .map(|r| r.target.clone())
                    .collect();
            }
            if g.step_idx == repeat_g && !failed_first.is_empty() {
                let again: Vec<String> = do_runs(g).iter().map(|r| r.target.clone()).collect();
                // targets that failed on their own (flag on) and ran before must run again
                let own_fail: Vec<&String> = failed_first
                    .iter()
                    .filter(|t| {
                        // failed by its own flag, not through a dependency
                        world
                            .rule_for(t)
                            .map(|(_, r)| {
                                r.stmts.iter().any(|s| matches!(s, Stmt::FailIf { flag, .. } if world.files.get(flag).map_or(false, |f| f.bytes.first() == Some(&b'1'))))
                            })
                            .unwrap_or(false)
                    })
                    .collect();
                // without -k another failing target may legitimately stop the run
                // first; but the run cannot fail again without executing some
                // failing script again
                let refailed = do_runs(g).iter().any(|r| r.rc.map_or(false, |c| c != 0));
                if !own_fail.is_empty() && !refailed {
                    v.push(Violation {
                        kind: "failure-not-retried".into(),
                        detail: format!(
                            "group {} {:?}: none of the targets that failed in the previous run ({:?}) was executed again; executed: {:?}",
                            g.step_idx, cmd.argv, own_fail, again
                        ),
                    });
                }
                if keep_going {
                    for t in &own_fail {
                        // with -k every independent failing target is reached again
                        if !again.contains(t) && req.contains(t) {
                            v.push(Violation {
                                kind: "failure-not-retried".into(),
                                detail: format!(
                                    "group {} {:?} (--keep-going): requested target {} failed last run but was not executed again",
                                    g.step_idx, cmd.argv, t
                                ),
                            });
                        }
                    }
                }
            }
            if g.step_idx == repair_g && st == Some(0) {
                let mut f = freshness(rec, g.step_idx, &req);
                for x in f.iter_mut() {
                    x.kind = "stale-after-repair".into();
                }
                v.extend(f);
            }
        }
        v
    }
    fn probes(&self, _case: &Case, rec: &RunRecord) -> BTreeMap<String, u64> {
        let mut m = BTreeMap::new();
        for g in &rec.groups {
            let nf = do_runs(g).iter().filter(|r| r.rc.map_or(false, |c| c != 0)).count() as u64;
            *m.entry("script_failures".to_string()).or_insert(0) += nf;
            if g.procs.iter().any(|p| p.status == Some(32)) {
                *m.entry("exit_32_target_failed_seen".to_string()).or_insert(0) += 1;
            }
        }
        m
    }
}

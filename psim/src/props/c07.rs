//! C07 -- each target built at most once per run; outcome independent of schedule.

use super::gen::*;
use super::oracle::*;
use super::*;
use crate::dsl::*;

pub struct C07;

fn serialise_cmd(c: &Cmd) -> Cmd {
    let mut n = c.clone();
    n.argv = n
        .argv
        .iter()
        .filter(|a| *a != "--shuffle")
        .map(|a| {
            if a.starts_with("-j") {
                "-j1".to_string()
            } else {
                a.clone()
            }
        })
        .collect();
    n
}

/// Targets that share their stem and differ in the extension matched by their
/// default rule (`foo.a` from default.a.do, `foo.b` from default.b.do, `foo`
/// from foo.do), built side by side: whatever is derived from the names ($2,
/// the temporary output file, the log) must not collide.
fn same_stem_case(rng: &mut Rng, seed: u64) -> Case {
    let exts = ["a", "b", "c.d"];
    let stems = ["foo", "bar"];
    let mut rules: Vec<(String, Rule)> = Vec::new();
    let out = |rng: &mut Rng| -> Stmt {
        Stmt::Out {
            mode: match rng.below(3) {
                0 => OutMode::Stdout,
                1 => OutMode::File,
                _ => OutMode::Append,
            },
            pad: *rng.pick(&[0usize, 100, 5000]),
        }
    };
    for e in exts.iter() {
        let mut st = vec![out(rng), Stmt::IfChange(vec!["s0".into()])];
        if rng.chance(2, 3) {
            st.push(Stmt::Work(rng.range(1, 60)));
        }
        rules.push((format!("default.{}.do", e), Rule { version: 0, stmts: st }));
    }
    let mut targets: Vec<String> = Vec::new();
    for s in stems.iter() {
        for e in exts.iter() {
            if rng.chance(3, 4) {
                targets.push(format!("{}.{}", s, e));
            }
        }
        if rng.chance(1, 2) {
            // the bare stem with a rule of its own
            let mut st = vec![out(rng), Stmt::IfChange(vec!["s0".into()])];
            if rng.chance(1, 2) {
                st.push(Stmt::Work(rng.range(1, 60)));
            }
            rules.push((format!("{}.do", s), Rule { version: 0, stmts: st }));
            targets.push(s.to_string());
        }
    }
    if targets.len() < 2 {
        targets = vec!["foo.a".into(), "foo.b".into()];
    }
    rng.shuffle(&mut targets);
    rules.push((
        "top.do".into(),
        Rule {
            version: 0,
            stmts: vec![Stmt::IfChange(targets.clone())],
        },
    ));
    let mut sc = Scenario {
        family: "c07-same-stem".into(),
        files: vec![("s0".to_string(), source_content("s0", 0))],
        rules,
        ..Default::default()
    };
    let ts = if rng.chance(1, 2) { vec!["top".to_string()] } else { targets };
    let mut c = redo_cmd(rng, "redo", &ts, 1, 300);
    c.argv.retain(|a| !a.starts_with("-j"));
    c.argv.insert(1, format!("-j{}", rng.range(2, 6)));
    sc.history.push(Step::Cmds(vec![c]));
    if rng.chance(1, 2) {
        sc.history.push(Step::Write {
            path: "s0".into(),
            bytes: source_content("s0", 1),
        });
        let mut c = redo_cmd(rng, "redo-ifchange", &ts_or_top(&sc), 1, 300);
        c.make_tokens = Some(rng.range(1, 4) as u32);
        sc.history.push(Step::Cmds(vec![c]));
    }
    Case {
        property: "C07".into(),
        seed,
        scenario: sc,
        knobs: Knobs::draw(rng),
        opts: PlayOpts::default(),
        meta: BTreeMap::new(),
    }
}

fn ts_or_top(sc: &Scenario) -> Vec<String> {
    match sc.history.first() {
        Some(Step::Cmds(v)) => v[0].targets(),
        _ => vec!["top".into()],
    }
}

/// The shape in which job tokens are given up, taken by others and "cheated"
/// (C08's cheat-prone family): several scripts share one slow target while
/// other jobs hold the remaining tokens for long, with log capture on.  The
/// exit status must still be the serial one.
fn cheat_prone_case(rng: &mut Rng, seed: u64) -> Case {
    let mut rules: Vec<(String, Rule)> = Vec::new();
    let nshare = rng.range(2, 3) as usize;
    let nlong = rng.range(1, 3) as usize;
    let mut deps = Vec::new();
    rules.push((
        "x.do".into(),
        Rule {
            version: 0,
            stmts: vec![Stmt::IfChange(vec!["s0".into()]), Stmt::Work(rng.range(5, 80))],
        },
    ));
    for i in 0..nshare {
        let n = format!("a{}", i);
        let mut st = vec![Stmt::IfChange(vec!["x".into()])];
        if rng.chance(1, 2) {
            st.push(Stmt::Work(rng.range(1, 30)));
        }
        rules.push((format!("{}.do", n), Rule { version: 0, stmts: st }));
        deps.push(n);
    }
    for i in 0..nlong {
        let n = format!("w{}", i);
        rules.push((
            format!("{}.do", n),
            Rule {
                version: 0,
                stmts: vec![Stmt::Work(rng.range(100, 900))],
            },
        ));
        deps.push(n);
    }
    if rng.chance(1, 2) {
        rng.shuffle(&mut deps);
    }
    rules.push((
        "top.do".into(),
        Rule {
            version: 0,
            stmts: vec![Stmt::IfChange(deps)],
        },
    ));
    let mut sc = Scenario {
        family: "c07-cheat-prone".into(),
        files: vec![("s0".to_string(), source_content("s0", 0))],
        rules,
        ..Default::default()
    };
    let mut c = redo_cmd(rng, "redo", &["top".to_string()], 1, 1000);
    c.argv.retain(|a| !a.starts_with("-j"));
    c.argv.insert(1, format!("-j{}", rng.range(2, 3)));
    sc.history.push(Step::Cmds(vec![c]));
    let mut knobs = Knobs::draw(rng);
    if knobs.stall_pm == 0 && rng.chance(1, 2) {
        knobs.stall_pm = 30;
    }
    Case {
        property: "C07".into(),
        seed,
        scenario: sc,
        knobs,
        opts: PlayOpts::default(),
        meta: BTreeMap::new(),
    }
}

impl Property for C07 {
    fn id(&self) -> &'static str {
        "C07"
    }
    fn runs(&self, tier: Tier) -> u64 {
        match tier {
            Tier::Quick => 800,
            Tier::Thorough => 16000,
        }
    }
    fn rule(&self) -> &'static str {
        "one top-level redo / redo-ifchange (-j1..8, --shuffle on/off, random simulated script \
         durations) on diamonds, chains, fans with shared checksummed and always targets, optionally \
         after a first build and an edit; every eighth scenario has targets that share a stem under different default rules (foo.a, foo.b, foo), every eighth is the token-cheating shape of C08 (shared \
         slow target, long-running siblings, log capture on); oracle: at most one do-begin per target per invocation, and \
         final bytes (noise stripped), exit status and structural DB view (Deps edges, \
         generated/override/failed/checksummed flags) equal those of the same history replayed with the \
         serial policy at -j1, and bytes equal the from-scratch evaluator; non-trivial = >=1 preemption \
         and >=1 script execution; distinct = (scenario, preemption signature)"
    }
    fn generate(&self, rng: &mut Rng, seed: u64, _tier: Tier, index: u64) -> Case {
        if index % 8 == 7 {
            return cheat_prone_case(rng, seed);
        }
        if index % 8 == 3 {
            return same_stem_case(rng, seed);
        }
        let mut p = GraphParams::small(rng);
        p.n_targets = rng.range(3, 8) as usize;
        p.n_sources = rng.range(1, 3) as usize;
        p.max_deps = if index % 3 == 0 { 4 } else { 2 };
        p.csum_pm = *rng.pick(&[0, 300, 500]);
        p.always_pm = *rng.pick(&[0, 200, 400]);
        p.max_work_ms = *rng.pick(&[5, 50, 500]);
        let g = gen_graph(rng, &p);
        let mut sc = g.scenario("c07");
        if rng.chance(1, 2) {
            // second-run shape: build, edit, then the judged command
            sc.history.push(Step::Cmds(vec![redo_cmd(
                rng,
                "redo-ifchange",
                &[g.top()],
                4,
                200,
            )]));
            let s = rng.pick(&g.sources).clone();
            sc.history.push(Step::Write {
                path: s.clone(),
                bytes: source_content(&s, 1),
            });
        }
        let cmd = if rng.chance(1, 2) {
            redo_cmd(rng, "redo", &[g.top()], 8, 300)
        } else {
            let mut ts = vec![g.top()];
            for _ in 0..rng.below(3) {
                ts.push(rng.pick(&g.targets).clone());
            }
            // -jN for redo-ifchange comes from a simulated make jobserver
            let mut c = redo_cmd(rng, "redo-ifchange", &ts, 1, 300);
            if rng.chance(1, 2) {
                c.make_tokens = Some(rng.range(1, 5) as u32);
            }
            c
        };
        sc.history.push(Step::Cmds(vec![cmd]));
        Case {
            property: "C07".into(),
            seed,
            scenario: sc,
            knobs: Knobs::draw(rng),
            opts: PlayOpts::default(),
            meta: BTreeMap::new(),
        }
    }
    fn check(&self, _case: &Case, rec: &RunRecord, _obs: &dyn Observer) -> Vec<Violation> {
        let mut v = Vec::new();
        for g in &rec.groups {
            if !judgeable(g) {
                continue;
            }
            for (t, n) in exec_counts(g) {
                if n > 1 {
                    v.push(Violation {
                        kind: "built-twice".into(),
                        detail: format!(
                            "group {} {:?}: the .do of {} was executed {} times in one invocation",
                            g.step_idx, g.cmds[0].argv, t, n
                        ),
                    });
                }
            }
            if g.results[0].status == Some(0) {
                let cmd = &g.cmds[0];
                let ts: Vec<String> = cmd
                    .targets()
                    .iter()
                    .filter_map(|a| arg_path(&cmd.cwd, a))
                    .collect();
                v.extend(freshness(rec, g.step_idx, &ts));
            }
        }
        v
    }
    fn reference(&self, case: &Case) -> Option<(Scenario, Knobs, PlayOpts)> {
        let mut sc = case.scenario.clone();
        for s in sc.history.iter_mut() {
            if let Step::Cmds(v) = s {
                for c in v.iter_mut() {
                    *c = serialise_cmd(c);
                }
            }
        }
        Some((sc, Knobs::serial(), PlayOpts::default()))
    }
    fn check_with_reference(&self, _case: &Case, rec: &RunRecord, re: &RunRecord) -> Vec<Violation> {
        let mut v = Vec::new();
        let (ga, gb) = match (rec.groups.last(), re.groups.last()) {
            (Some(a), Some(b)) => (a, b),
            _ => return v,
        };
        if !judgeable(ga) || !judgeable(gb) {
            return v;
        }
        let sa = ga.results[0].status;
        let sb = gb.results[0].status;
        if sa != sb {
            v.push(Violation {
                kind: "status-differs-from-serial".into(),
                detail: format!(
                    "{:?}: exit status {:?}, serial -j1 build gives {:?}; stderr: {}",
                    ga.cmds[0].argv,
                    sa,
                    sb,
                    c09::tail(&ga.results[0].stderr, 400)
                ),
            });
            return v;
        }
        let fa = rec.fs_after.last().unwrap();
        let fb = re.fs_after.last().unwrap();
        let names: std::collections::BTreeSet<&String> = fa.keys().chain(fb.keys()).collect();
        for n in names {
            let a = fa.get(n).map(|s| strip_noise(&s.bytes));
            let b = fb.get(n).map(|s| strip_noise(&s.bytes));
            if a != b {
                v.push(Violation {
                    kind: "files-differ-from-serial".into(),
                    detail: format!(
                        "{:?}: file {} differs from the serial build\n--- this schedule\n{}\n--- serial\n{}",
                        ga.cmds[0].argv,
                        n,
                        a.map(|x| String::from_utf8_lossy(&x).into_owned()).unwrap_or("<absent>".into()),
                        b.map(|x| String::from_utf8_lossy(&x).into_owned()).unwrap_or("<absent>".into())
                    ),
                });
                break;
            }
        }
        if let (Some(Some(da)), Some(Some(db))) = (rec.db_after.last(), re.db_after.last()) {
            if da.integrity != "ok" {
                v.push(Violation {
                    kind: "db-integrity".into(),
                    detail: da.integrity.clone(),
                });
            }
            if da.files != db.files || da.deps != db.deps {
                let only_a: Vec<_> = da.deps.difference(&db.deps).take(5).collect();
                let only_b: Vec<_> = db.deps.difference(&da.deps).take(5).collect();
                let mut fd = Vec::new();
                for (k, x) in &da.files {
                    if db.files.get(k) != Some(x) {
                        fd.push(format!("{}: {:?} vs serial {:?}", k, x, db.files.get(k)));
                    }
                }
                for k in db.files.keys() {
                    if !da.files.contains_key(k) {
                        fd.push(format!("{}: missing, serial has it", k));
                    }
                }
                v.push(Violation {
                    kind: "db-differs-from-serial".into(),
                    detail: format!(
                        "{:?}: recorded dependency state differs from the serial build: edges only here {:?}, only serial {:?}, file flags (generated, override, failed, csum) {:?}",
                        ga.cmds[0].argv, only_a, only_b, fd
                    ),
                });
            }
        }
        v
    }
}

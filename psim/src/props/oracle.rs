//! Oracles shared by several properties.

use super::*;
use crate::dsl::*;
use crate::model::*;
use crate::sim::StepOutcome;
use std::collections::BTreeMap;

/// The group ended in a way the property under test can be judged on:
/// everything terminated and nothing crashed (crashes and hangs are C09's).
pub fn judgeable(g: &GroupRec) -> bool {
    g.outcome == StepOutcome::AllDead && has_panic(g).is_none()
}

/// Root-relative path of a command-line argument.
pub fn arg_path(cwd: &str, arg: &str) -> Option<String> {
    join_norm(cwd, arg)
}

/// Compare every non-source file in the eval closure of `targets` with what a
/// from-scratch build would produce (C01).  `hist_idx` is the index of the
/// history step after which the comparison is made.
pub fn freshness(rec: &RunRecord, hist_idx: usize, targets: &[String]) -> Vec<Violation> {
    let mut out = Vec::new();
    let world = &rec.world_after[hist_idx];
    let fs = &rec.fs_after[hist_idx];
    let mut memo: BTreeMap<String, Result<Built, EvalErr>> = BTreeMap::new();
    for t in targets {
        let _ = world.eval_memo(t, &mut memo);
    }
    for (p, r) in &memo {
        if world.is_user_file(p) {
            continue;
        }
        let on_disk = fs.get(p).map(|s| strip_noise(&s.bytes));
        match r {
            Ok(Built::Bytes(b)) => {
                let want = strip_noise(b);
                match on_disk {
                    Some(have) if have == want => {}
                    Some(have) => out.push(Violation {
                        kind: "stale".into(),
                        detail: format!(
                            "after history step {}: target {} differs from a from-scratch build\n--- on disk\n{}--- expected\n{}",
                            hist_idx,
                            p,
                            String::from_utf8_lossy(&have),
                            String::from_utf8_lossy(&want)
                        ),
                    }),
                    None => out.push(Violation {
                        kind: "stale".into(),
                        detail: format!(
                            "after history step {}: target {} is missing but a from-scratch build produces it",
                            hist_idx, p
                        ),
                    }),
                }
            }
            Ok(Built::Absent) => {
                if on_disk.is_some() {
                    out.push(Violation {
                        kind: "stale".into(),
                        detail: format!(
                            "after history step {}: target {} exists but a from-scratch build produces no file",
                            hist_idx, p
                        ),
                    });
                }
            }
            Err(EvalErr::NoRule) => {}
            Err(e) => out.push(Violation {
                kind: "success-on-unbuildable".into(),
                detail: format!(
                    "after history step {}: command succeeded although {} cannot be built from scratch ({:?})",
                    hist_idx, p, e
                ),
            }),
        }
    }
    out
}

/// Number of do-begin events per root-relative target in a group.
pub fn exec_counts(g: &GroupRec) -> BTreeMap<String, u32> {
    let mut m = BTreeMap::new();
    for r in do_runs(g) {
        *m.entry(r.target).or_insert(0) += 1;
    }
    m
}

pub fn first_lines(s: &str, n: usize) -> String {
    s.lines().take(n).collect::<Vec<_>>().join("\n")
}

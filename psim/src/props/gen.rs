//! Shared scenario generators.

use crate::driver::*;
use crate::dsl::*;
use crate::rng::Rng;

#[derive(Clone, Debug)]
pub struct GraphParams {
    pub n_sources: usize,
    pub n_targets: usize,
    pub max_deps: usize,
    /// per-mille of targets that are checksummed / always / have noise
    pub csum_pm: u64,
    pub always_pm: u64,
    pub max_work_ms: u64,
    pub out_file_pm: u64,
    /// name targets t0.. in the root directory only
    pub flat: bool,
}

impl GraphParams {
    pub fn small(rng: &mut Rng) -> GraphParams {
        GraphParams {
            n_sources: rng.range(1, 3) as usize,
            n_targets: rng.range(2, 6) as usize,
            max_deps: 3,
            csum_pm: *rng.pick(&[0, 0, 200, 400]),
            always_pm: *rng.pick(&[0, 0, 100, 300]),
            max_work_ms: *rng.pick(&[0, 5, 50, 500]),
            out_file_pm: *rng.pick(&[0, 300, 1000]),
            flat: true,
        }
    }
}

#[derive(Clone, Debug)]
pub struct Graph {
    pub sources: Vec<String>,
    pub targets: Vec<String>,
    pub files: Vec<(String, Vec<u8>)>,
    pub rules: Vec<(String, Rule)>,
    /// deps[i] = names target i declares (static part)
    pub deps: Vec<Vec<String>>,
    pub csum: Vec<bool>,
    pub always: Vec<bool>,
}

pub fn source_name(i: usize) -> String {
    format!("s{}", i)
}

pub fn target_name(i: usize) -> String {
    const EXT: [&str; 4] = ["", ".o", ".x.y", ".txt"];
    format!("t{}{}", i, EXT[i % EXT.len()])
}

/// Random acyclic graph: target i may depend on sources and on targets j < i.
/// The last target depends on enough others to make the whole graph reachable
/// from it.
pub fn gen_graph(rng: &mut Rng, p: &GraphParams) -> Graph {
    let sources: Vec<String> = (0..p.n_sources).map(source_name).collect();
    let targets: Vec<String> = (0..p.n_targets).map(target_name).collect();
    let mut files = Vec::new();
    for s in &sources {
        files.push((s.clone(), source_content(s, 0)));
    }
    let mut rules = Vec::new();
    let mut all_deps = Vec::new();
    let mut csum = Vec::new();
    let mut always = Vec::new();
    let mut used = vec![false; p.n_targets];
    for i in 0..p.n_targets {
        let mut pool: Vec<String> = sources.clone();
        pool.extend(targets[..i].iter().cloned());
        rng.shuffle(&mut pool);
        let mut nd = rng.range(1, p.max_deps as u64) as usize;
        if i == p.n_targets - 1 {
            // the top depends on every target nobody else uses
            nd = nd.max(1);
        }
        let mut deps: Vec<String> = pool.into_iter().take(nd).collect();
        if i == p.n_targets - 1 {
            for j in 0..i {
                if !used[j] && !deps.contains(&targets[j]) {
                    deps.push(targets[j].clone());
                }
            }
        }
        for d in &deps {
            if let Some(j) = targets.iter().position(|t| t == d) {
                used[j] = true;
            }
        }
        let is_csum = i + 1 < p.n_targets && rng.chance(p.csum_pm, 1000);
        let is_always = rng.chance(p.always_pm, 1000);
        let mut stmts = Vec::new();
        if rng.chance(p.out_file_pm, 1000) {
            stmts.push(Stmt::Out {
                mode: if rng.chance(1, 3) { OutMode::Append } else { OutMode::File },
                pad: 0,
            });
        }
        if is_always {
            stmts.push(Stmt::Always);
        }
        // split the deps over one or two ifchange statements
        if deps.len() >= 2 && rng.chance(1, 3) {
            let k = rng.range(1, deps.len() as u64 - 1) as usize;
            stmts.push(Stmt::IfChange(deps[..k].to_vec()));
            stmts.push(Stmt::IfChange(deps[k..].to_vec()));
        } else {
            stmts.push(Stmt::IfChange(deps.clone()));
        }
        if p.max_work_ms > 0 && rng.chance(2, 3) {
            stmts.push(Stmt::Work(rng.range(1, p.max_work_ms)));
        }
        if is_csum {
            if rng.chance(1, 2) {
                stmts.push(Stmt::Noise);
            }
            stmts.push(Stmt::Stamp { only: Vec::new() });
        }
        rules.push((
            format!("{}.do", targets[i]),
            Rule {
                version: 0,
                stmts,
            },
        ));
        all_deps.push(deps);
        csum.push(is_csum);
        always.push(is_always);
    }
    Graph {
        sources,
        targets,
        files,
        rules,
        deps: all_deps,
        csum,
        always,
    }
}

impl Graph {
    pub fn top(&self) -> String {
        self.targets.last().unwrap().clone()
    }
    pub fn scenario(&self, family: &str) -> Scenario {
        Scenario {
            family: family.to_string(),
            dirs: Vec::new(),
            symlinks: Vec::new(),
            files: self.files.clone(),
            rules: self.rules.clone(),
            history: Vec::new(),
        }
    }
}

pub fn redo_cmd(rng: &mut Rng, prog: &str, targets: &[String], max_j: u64, log_pm: u64) -> Cmd {
    let mut argv = vec![prog.to_string()];
    let mut env = Vec::new();
    if prog == "redo" {
        let j = rng.range(1, max_j);
        if j > 1 || rng.chance(1, 2) {
            argv.push(format!("-j{}", j));
        }
        if rng.chance(1, 6) {
            argv.push("--shuffle".into());
        }
        if !rng.chance(log_pm, 1000) {
            argv.push("--no-log".into());
        }
    } else if !rng.chance(log_pm, 1000) {
        env.push(("REDO_LOG".to_string(), "0".to_string()));
    }
    argv.extend(targets.iter().cloned());
    Cmd {
        argv,
        cwd: String::new(),
        env,
        make_tokens: None,
        start_step: 0,
        key: None,
        reader_gone_at: None,
    }
}

// ---------------------------------------------------------------- histories

/// Generator-side state while a history is drawn.
pub struct HistState {
    pub src_ver: Vec<u32>,
    pub rule_ver: Vec<u32>,
    pub flags: Vec<(String, bool)>,
}

#[derive(Clone, Debug)]
pub struct HistParams {
    pub steps: usize,
    pub edit_rule_pm: u64,
    pub remove_pm: u64,
    pub flag_pm: u64,
    pub forced_redo_pm: u64,
    pub max_j: u64,
    pub log_pm: u64,
}

/// Add `n_fail` failing-capable targets: they declare a flag file and exit
/// non-zero while it is on.
pub fn add_fail_flags(rng: &mut Rng, g: &mut Graph, n_fail: usize) -> Vec<(String, bool)> {
    let mut flags = Vec::new();
    let mut idx: Vec<usize> = (0..g.targets.len()).collect();
    rng.shuffle(&mut idx);
    for (k, i) in idx.into_iter().take(n_fail).enumerate() {
        let flag = format!("f{}", k);
        g.files.push((flag.clone(), b"0\n".to_vec()));
        let partial = rng.chance(1, 2);
        // sometimes the partial output goes to $1 itself before the failure
        let direct = partial && rng.chance(1, 3);
        let code = *rng.pick(&[1, 2, 7, 42]);
        let r = &mut g.rules[i].1;
        // after the ifchange statements so that dependencies are built first,
        // or before them, both occur
        let at = if rng.chance(1, 2) { r.stmts.len() } else { 0 };
        r.stmts.insert(
            at,
            Stmt::FailIf {
                flag: flag.clone(),
                code,
                partial,
                direct,
            },
        );
        r.stmts.insert(at, Stmt::IfChange(vec![flag.clone()]));
        g.deps[i].push(flag.clone());
        flags.push((flag, false));
    }
    flags
}

pub fn gen_history(rng: &mut Rng, g: &Graph, sc: &mut Scenario, st: &mut HistState, p: &HistParams) {
    // always start with a build so that later steps have something to disturb
    let first_t = if rng.chance(3, 4) {
        g.top()
    } else {
        rng.pick(&g.targets).clone()
    };
    let first_prog = if rng.chance(1, 2) { "redo" } else { "redo-ifchange" };
    sc.history.push(Step::Cmds(vec![redo_cmd(
        rng,
        first_prog,
        &[first_t],
        p.max_j,
        p.log_pm,
    )]));
    let mut since_build = 0;
    for k in 0..p.steps {
        let last = k + 1 == p.steps;
        let r = rng.below(1000);
        let mut acc = 0;
        let mut pick = |pm: u64| -> bool {
            acc += pm;
            r < acc
        };
        if !last && since_build < 3 && pick(300) {
            let i = rng.below(g.sources.len() as u64) as usize;
            // mostly a new version, sometimes back to the previous content
            if st.src_ver[i] > 0 && rng.chance(1, 4) {
                st.src_ver[i] -= 1;
            } else {
                st.src_ver[i] += 1;
            }
            sc.history.push(Step::Write {
                path: g.sources[i].clone(),
                bytes: source_content(&g.sources[i], st.src_ver[i]),
            });
            since_build += 1;
        } else if !last && since_build < 3 && pick(p.edit_rule_pm) {
            let i = rng.below(g.targets.len() as u64) as usize;
            st.rule_ver[i] += 1;
            let mut rule = current_rule(sc, &g.rules[i].0).unwrap_or_else(|| g.rules[i].1.clone());
            rule.version = st.rule_ver[i];
            sc.history.push(Step::SetRule {
                path: g.rules[i].0.clone(),
                rule: Some(rule),
            });
            since_build += 1;
        } else if !last && since_build < 3 && pick(p.remove_pm) {
            let t = rng.pick(&g.targets).clone();
            sc.history.push(Step::Remove { path: t });
            since_build += 1;
        } else if !last && since_build < 3 && !st.flags.is_empty() && pick(p.flag_pm) {
            let i = rng.below(st.flags.len() as u64) as usize;
            st.flags[i].1 = !st.flags[i].1;
            sc.history.push(Step::Write {
                path: st.flags[i].0.clone(),
                bytes: if st.flags[i].1 { b"1\n".to_vec() } else { b"0\n".to_vec() },
            });
            since_build += 1;
        } else {
            let forced = rng.chance(p.forced_redo_pm, 1000);
            let t = if rng.chance(1, 2) {
                g.top()
            } else {
                rng.pick(&g.targets).clone()
            };
            let mut ts = vec![t];
            if rng.chance(1, 5) {
                ts.push(rng.pick(&g.targets).clone());
            }
            sc.history.push(Step::Cmds(vec![redo_cmd(
                rng,
                if forced { "redo" } else { "redo-ifchange" },
                &ts,
                p.max_j,
                p.log_pm,
            )]));
            since_build = 0;
        }
    }
    if since_build > 0 {
        sc.history.push(Step::Cmds(vec![redo_cmd(
            rng,
            "redo-ifchange",
            &[g.top()],
            p.max_j,
            p.log_pm,
        )]));
    }
}

/// The latest version of a rule as of the end of the history drawn so far.
pub fn current_rule(sc: &Scenario, path: &str) -> Option<Rule> {
    let mut cur = sc
        .rules
        .iter()
        .find(|(p, _)| p == path)
        .map(|(_, r)| r.clone());
    for s in &sc.history {
        if let Step::SetRule { path: p, rule } = s {
            if p == path {
                cur = rule.clone();
            }
        }
    }
    cur
}

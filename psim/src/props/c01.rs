//! C01 -- no stale target after a successful redo-ifchange / redo.

use super::gen::*;
use super::oracle::*;
use super::*;
use crate::dsl::*;

pub struct C01;

pub fn c01_case(rng: &mut Rng, seed: u64, prop: &str) -> Case {
    let mut p = GraphParams::small(rng);
    p.n_targets = rng.range(2, 7) as usize;
    p.csum_pm = *rng.pick(&[0, 300, 600]);
    p.max_work_ms = *rng.pick(&[0, 0, 5]);
    let mut g = gen_graph(rng, &p);
    let nfail = if rng.chance(1, 3) { 1 } else { 0 };
    let flags = add_fail_flags(rng, &mut g, nfail);
    // sometimes one dynamic dependency
    if g.targets.len() >= 3 && g.sources.len() >= 2 && rng.chance(1, 4) {
        let i = g.targets.len() - 1;
        g.rules[i].1.stmts.insert(
            0,
            Stmt::Switch {
                sel: g.sources[0].clone(),
                even: g.targets[0].clone(),
                odd: g.sources[1].clone(),
            },
        );
    }
    let mut sc = g.scenario("c01");
    let mut st = HistState {
        src_ver: vec![0; g.sources.len()],
        rule_ver: vec![0; g.targets.len()],
        flags,
    };
    let hp = HistParams {
        steps: rng.range(2, 8) as usize,
        edit_rule_pm: 120,
        remove_pm: 120,
        flag_pm: 150,
        forced_redo_pm: 250,
        max_j: 4,
        log_pm: 200,
    };
    gen_history(rng, &g, &mut sc, &mut st, &hp);
    Case {
        property: prop.into(),
        seed,
        scenario: sc,
        knobs: Knobs::draw(rng),
        opts: PlayOpts::default(),
        meta: BTreeMap::new(),
    }
}

impl Property for C01 {
    fn id(&self) -> &'static str {
        "C01"
    }
    fn runs(&self, tier: Tier) -> u64 {
        match tier {
            Tier::Quick => 1500,
            Tier::Thorough => 30000,
        }
    }
    fn rule(&self) -> &'static str {
        "six runs in ten: random acyclic graphs (plain, checksummed, always, dynamic, failing-by-flag targets) with \
         histories of 2-8 steps (source edits, .do edits, target removals, flag flips, forced redo, \
         redo-ifchange at -j1..4); four in ten: the histories of the C02 (dropped/shadowed dependencies, \
         default rules), C03 (checksum chains, stamp toggling), C13 (rule placement in a directory chain), \
         C14 (ifcreate idiom, shared always-targets) and C17 (hand edits, queries) generators; under seeded schedules; after every command that exits 0 each \
         non-source file in the from-scratch closure of the requested targets must equal eval(); \
         non-trivial = at least one preemption and one script execution; distinct = (scenario, \
         preemption signature)"
    }
    fn generate(&self, rng: &mut Rng, seed: u64, tier: Tier, index: u64) -> Case {
        // Staleness is judged by one universal oracle, so four runs in ten take
        // their history from the generators of the properties whose mechanisms
        // C01 rests on (dropped and shadowed dependencies, checksum chains,
        // rule placement, ifcreate/always, hand edits with queries in between).
        let mut c = match index % 10 {
            1 => c02::C02.generate(rng, seed, tier, index),
            3 => c03::C03.generate(rng, seed, tier, index),
            5 => c13::C13.generate(rng, seed, tier, index),
            // C14 alternates its two families on index % 4
            7 => c14::C14.generate(rng, seed, tier, index / 10),
            9 => c17::C17.generate(rng, seed, tier, index),
            _ => return c01_case(rng, seed, "C01"),
        };
        c.property = "C01".into();
        c
    }
    fn check(&self, case: &Case, rec: &RunRecord, _obs: &dyn Observer) -> Vec<Violation> {
        let mut v = Vec::new();
        for g in &rec.groups {
            if !judgeable(g) {
                continue;
            }
            for (k, r) in g.results.iter().enumerate() {
                if r.status != Some(0) {
                    continue;
                }
                let cmd = &g.cmds[k];
                if !matches!(cmd.prog(), "redo" | "redo-ifchange") {
                    continue;
                }
                let ts: Vec<String> = cmd
                    .targets()
                    .iter()
                    .filter_map(|a| arg_path(&cmd.cwd, a))
                    .collect();
                let mut f = freshness(rec, g.step_idx, &ts);
                for x in f.iter_mut() {
                    x.detail = format!("{:?}: {}", cmd.argv, x.detail);
                }
                v.extend(f);
            }
        }
        let _ = case;
        v
    }
    fn probes(&self, case: &Case, rec: &RunRecord) -> BTreeMap<String, u64> {
        let mut m = BTreeMap::new();
        m.insert(format!("family_{}", case.scenario.family), 1);
        for g in &rec.groups {
            if g.procs.iter().any(|p| p.name == "redo-unlocked") {
                *m.entry("out_of_band_path_taken".to_string()).or_insert(0) += 1;
            }
            if g.results.iter().any(|r| r.status != Some(0)) {
                *m.entry("failed_command".to_string()).or_insert(0) += 1;
            }
            if g.results.iter().any(|r| r.status == Some(0)) {
                *m.entry("successful_command_judged".to_string()).or_insert(0) += 1;
            }
        }
        m
    }
}

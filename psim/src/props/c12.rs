//! C12 -- dependency cycles end in an error, never in a hang.

use super::gen::*;
use super::*;
use crate::dsl::*;
use crate::sim::StepOutcome;

pub struct C12;

impl Property for C12 {
    fn id(&self) -> &'static str {
        "C12"
    }
    fn runs(&self, tier: Tier) -> u64 {
        match tier {
            Tier::Quick => 2500,
            Tier::Thorough => 40000,
        }
    }
    fn rule(&self) -> &'static str {
        "cycles of length 1-4 among .do scripts (plain and checksummed nodes), reached directly or \
         through an acyclic prefix of 0-8 nodes, with acyclic siblings, entered at every node, by redo or redo-ifchange at -j1..4, on a first build \
         and on a rebuild after the cycle was introduced by a rule edit; oracle: the run terminates (no \
         simulator deadlock, no step/time cap), the top-level status is non-zero, some process reports \
         a cyclic dependency (exit 208 or the message), nothing panics; non-trivial = >=1 preemption and \
         >=1 script; distinct = (scenario, preemption signature)"
    }
    fn generate(&self, rng: &mut Rng, seed: u64, _tier: Tier, index: u64) -> Case {
        let len = rng.range(1, 4) as usize;
        let cyc: Vec<String> = (0..len).map(|i| format!("c{}", i)).collect();
        let mut files = vec![("s0".to_string(), source_content("s0", 0))];
        let mut rules: Vec<(String, Rule)> = Vec::new();
        // acyclic sibling
        rules.push((
            "sib.do".into(),
            Rule {
                version: 0,
                stmts: vec![Stmt::IfChange(vec!["s0".into()]), Stmt::Work(rng.range(1, 30))],
            },
        ));
        let late = index % 3 == 2; // cycle introduced by a later rule edit
        let csum_pm: u64 = if late { *rng.pick(&[0, 300, 500]) } else { *rng.pick(&[0, 0, 300]) };
        for i in 0..len {
            let next = cyc[(i + 1) % len].clone();
            let mut deps = vec![next];
            if rng.chance(1, 2) {
                deps.insert(0, "sib".into());
            }
            if rng.chance(1, 3) {
                deps.push("s0".into());
            }
            let mut stmts = vec![Stmt::IfChange(deps)];
            if csum_pm > 0 && rng.chance(csum_pm, 1000) {
                // a checksummed node: its dependents are re-checked out of
                // band (redo-unlocked) when the cycle appears later
                stmts.push(Stmt::Stamp { only: Vec::new() });
            }
            rules.push((
                format!("{}.do", cyc[i]),
                Rule {
                    version: 0,
                    stmts,
                },
            ));
        }
        // acyclic prefix leading into the cycle (sometimes long, so that
        // database ids reach two digits)
        let plen = if rng.chance(1, 5) { rng.range(3, 8) as usize } else { rng.below(3) as usize };
        let mut entry = rng.pick(&cyc).clone();
        for i in 0..plen {
            let name = format!("p{}", i);
            let mut deps = vec![entry.clone()];
            if rng.chance(1, 2) {
                deps.push("sib".into());
                if rng.chance(1, 2) {
                    deps.reverse();
                }
            }
            let mut stmts = vec![Stmt::IfChange(deps)];
            if csum_pm > 0 && rng.chance(csum_pm / 2, 1000) {
                stmts.push(Stmt::Stamp { only: Vec::new() });
            }
            rules.push((
                format!("{}.do", name),
                Rule {
                    version: 0,
                    stmts,
                },
            ));
            entry = name;
        }
        files.push(("unused".into(), b"x\n".to_vec()));
        let mut sc = Scenario {
            family: "c12".into(),
            files,
            rules,
            ..Default::default()
        };
        let prog = if rng.chance(1, 2) { "redo" } else { "redo-ifchange" };
        if late {
            // break the cycle first: the last node depends only on s0
            let last = format!("{}.do", cyc[len - 1]);
            let cyclic_rule = sc.rules.iter().find(|(p, _)| *p == last).unwrap().1.clone();
            for (p, r) in sc.rules.iter_mut() {
                if *p == last {
                    r.stmts = vec![Stmt::IfChange(vec!["s0".into()])];
                }
            }
            if rng.chance(1, 2) {
                // an inner node is built (and gets its database id) before its ancestors
                let inner = rng.pick(&cyc).clone();
                sc.history
                    .push(Step::Cmds(vec![redo_cmd(rng, "redo-ifchange", &[inner], 2, 200)]));
            }
            sc.history
                .push(Step::Cmds(vec![redo_cmd(rng, "redo-ifchange", &[entry.clone()], 3, 200)]));
            if rng.chance(1, 3) {
                sc.history.push(Step::Write {
                    path: "s0".into(),
                    bytes: source_content("s0", 1),
                });
            }
            let mut nr = cyclic_rule;
            nr.version = 1;
            sc.history.push(Step::SetRule {
                path: last,
                rule: Some(nr),
            });
        }
        let mut ts = vec![entry];
        if rng.chance(1, 4) {
            ts.push("sib".into());
        }
        sc.history.push(Step::Cmds(vec![redo_cmd(rng, prog, &ts, 4, 300)]));
        let mut meta = BTreeMap::new();
        meta.insert("judged_group".to_string(), serde_json::json!(sc.history.len() - 1));
        Case {
            property: "C12".into(),
            seed,
            scenario: sc,
            knobs: Knobs::draw(rng),
            opts: PlayOpts::default(),
            meta,
        }
    }
    fn check(&self, case: &Case, rec: &RunRecord, _obs: &dyn Observer) -> Vec<Violation> {
        let mut v = Vec::new();
        let jg = case
            .meta
            .get("judged_group")
            .and_then(|x| x.as_u64())
            .unwrap_or(0) as usize;
        for g in &rec.groups {
            if g.step_idx != jg {
                continue;
            }
            match g.outcome {
                StepOutcome::Deadlock => v.push(Violation {
                    kind: "cycle-hang".into(),
                    detail: format!("deadlock on a cyclic dependency: {}", g.deadlock_report),
                }),
                StepOutcome::StepLimit => v.push(Violation {
                    kind: "cycle-hang".into(),
                    detail: format!(
                        "no termination within the step/time cap: {}",
                        g.deadlock_report
                    ),
                }),
                _ => {}
            }
            if let Some(p) = has_panic(g) {
                v.push(Violation {
                    kind: "cycle-panic".into(),
                    detail: p,
                });
                continue;
            }
            if g.outcome != StepOutcome::AllDead {
                continue;
            }
            let r = &g.results[0];
            if r.status == Some(0) {
                v.push(Violation {
                    kind: "cycle-success".into(),
                    detail: format!(
                        "{:?} exited 0 although the requested targets lead into a dependency cycle; stderr: {}",
                        g.cmds[0].argv,
                        c09::tail(&r.stderr, 400)
                    ),
                });
                continue;
            }
            let any208 = g.procs.iter().any(|p| p.status == Some(208));
            let msg = r.stderr.contains("yclic") || r.stdout.contains("yclic");
            if !any208 && !msg {
                v.push(Violation {
                    kind: "cycle-not-identified".into(),
                    detail: format!(
                        "{:?} failed with {:?} but no process exited 208 or mentioned a cyclic dependency; stderr: {}",
                        g.cmds[0].argv,
                        r.status,
                        c09::tail(&r.stderr, 600)
                    ),
                });
            }
        }
        v
    }
}

//! C12 -- dependency cycles end in an error, never in a hang.

use super::gen::*;
use super::*;
use crate::dsl::*;
use crate::sim::StepOutcome;

pub struct C12;

/// Did some script call `redo-ifchange T` while T's own script was running in
/// one of the caller's ancestors?
fn dynamic_cycle_request(g: &GroupRec) -> bool {
    use crate::sim::{Class, EvKind};
    let runs = do_runs(g);
    for e in &g.events {
        if !matches!(e.kind, EvKind::Op(Class::Proc)) {
            continue;
        }
        let args: Vec<&str> = match e.text.strip_prefix("exec redo-ifchange ") {
            Some(a) => a.split(' ').collect(),
            None => continue,
        };
        for r in &runs {
            let ancestor = e.lid.starts_with(&format!("{}.", r.lid));
            let running = r.begin <= e.step && r.end.map_or(true, |x| x >= e.step);
            if ancestor && running && args.iter().any(|a| *a == r.target) {
                return true;
            }
        }
    }
    false
}

/// Does a depth-first walk over the declared redo-ifchange dependencies from
/// `targets` meet a target that is on the current path?
fn leads_into_cycle(world: &crate::model::World, targets: &[String]) -> bool {
    fn deps(world: &crate::model::World, t: &str) -> Vec<String> {
        let mut out = Vec::new();
        if world.is_user_file(t) {
            return out;
        }
        if let Some((cand, rule)) = world.rule_for(t) {
            for st in &rule.stmts {
                if let Stmt::IfChange(v) = st {
                    for p in v {
                        if let Some(a) = join_norm(&cand.do_dir, p) {
                            out.push(a);
                        }
                    }
                }
            }
        }
        out
    }
    fn walk(world: &crate::model::World, t: &str, path: &mut Vec<String>, done: &mut std::collections::BTreeSet<String>) -> bool {
        if path.iter().any(|p| p == t) {
            return true;
        }
        if done.contains(t) {
            return false;
        }
        path.push(t.to_string());
        for d in deps(world, t) {
            if walk(world, &d, path, done) {
                return true;
            }
        }
        path.pop();
        done.insert(t.to_string());
        false
    }
    let mut done = Default::default();
    targets.iter().any(|t| walk(world, t, &mut Vec::new(), &mut done))
}

/// (waiter, lock byte, holder) for every process parked in a blocking lock
/// wait on .redo/locks at the end of the group.
fn lock_waits(g: &GroupRec) -> Vec<(String, String, Option<String>)> {
    use crate::sim::{Class, EvKind};
    // current holder of every byte, from the granted lock operations
    let parked: std::collections::BTreeSet<String> = g
        .deadlock_report
        .split('[')
        .skip(1)
        .map(|p| p.split(' ').next().unwrap_or("").to_string())
        .collect();
    let mut holder: BTreeMap<String, String> = BTreeMap::new();
    let mut last_try: BTreeMap<String, String> = BTreeMap::new();
    for e in &g.events {
        match &e.kind {
            EvKind::Op(Class::Lock) => {
                let w: Vec<&str> = e.text.split(' ').collect();
                if w.len() >= 5 && w[1] == ".redo/locks" {
                    if w[2] == "un" {
                        if holder.get(w[3]) == Some(&e.lid) {
                            holder.remove(w[3]);
                        }
                    } else if w[0] == "setlk" {
                        // tentatively granted; a following lockbusy takes it back
                        if !holder.contains_key(w[3]) {
                            holder.insert(w[3].to_string(), e.lid.clone());
                            last_try.insert(e.lid.clone(), w[3].to_string());
                        } else {
                            last_try.remove(&e.lid);
                        }
                    } else if w[0] == "setlkw" {
                        // logged when the process parks; it holds the byte once it ran on
                        last_try.insert(e.lid.clone(), format!("w{}", w[3]));
                    }
                }
            }
            EvKind::Info if e.text.starts_with("lockbusy .redo/locks ") => {
                let b = e.text.rsplit(' ').next().unwrap_or("");
                if last_try.get(&e.lid).map(|x| x.as_str()) == Some(b) && holder.get(b) == Some(&e.lid) {
                    holder.remove(b);
                }
            }
            EvKind::Go(_) => {
                if let Some(t) = last_try.get(&e.lid).cloned() {
                    if let Some(b) = t.strip_prefix('w') {
                        // a blocked setlkw that was released has been granted
                        holder.insert(b.to_string(), e.lid.clone());
                        last_try.remove(&e.lid);
                    }
                }
            }
            EvKind::Dead => {
                // (the processes still alive at the deadlock are killed by the
                // simulator afterwards; their locks count)
                if !parked.contains(&e.lid) {
                    holder.retain(|_, h| h != &e.lid);
                }
            }
            _ => {}
        }
    }
    // parked waiters from the report: [<lid> <prog> target=<t> parked in "setlkw .redo/locks wr <b> 1"]
    let mut out = Vec::new();
    for part in g.deadlock_report.split('[').skip(1) {
        if let Some(i) = part.find("parked in \"setlkw .redo/locks ") {
            let lid = part.split(' ').next().unwrap_or("").to_string();
            let rest = &part[i..];
            let w: Vec<&str> = rest.split(' ').collect();
            // parked in "setlkw .redo/locks wr <b> 1"
            if w.len() >= 6 {
                let b = w[5].to_string();
                let h = holder.get(&b).cloned().filter(|h| h != &lid);
                out.push((lid, b, h));
            }
        }
    }
    out
}

/// A base cycle with chords and extra nodes that lead into and out of it, so
/// that there are several paths to every node of the cycle; each script asks
/// for all of its dependencies in one redo-ifchange call (they are built in
/// parallel at -j>1).
fn tangled_case(rng: &mut Rng, seed: u64) -> Case {
    let n = rng.range(4, 7) as usize;
    let clen = rng.range(2, n as u64 - 1) as usize;
    let names: Vec<String> = (0..n).map(|i| format!("g{}", i)).collect();
    let mut rules: Vec<(String, Rule)> = Vec::new();
    for i in 0..n {
        let mut deps: Vec<String> = Vec::new();
        if i < clen {
            deps.push(names[(i + 1) % clen].clone());
        } else {
            // nodes outside the base cycle lead into it
            deps.push(names[rng.below(clen as u64) as usize].clone());
        }
        for _ in 0..rng.range(0, 2) {
            let d = rng.pick(&names).clone();
            if d != names[i] && !deps.contains(&d) {
                deps.push(d);
            }
        }
        if rng.chance(1, 2) {
            rng.shuffle(&mut deps);
        }
        let mut stmts = vec![Stmt::IfChange(deps)];
        if rng.chance(1, 4) {
            stmts.push(Stmt::Work(rng.range(1, 20)));
        }
        rules.push((format!("{}.do", names[i]), Rule { version: 0, stmts }));
    }
    let mut entry = vec![rng.pick(&names).clone()];
    if rng.chance(1, 3) {
        let e2 = rng.pick(&names).clone();
        if !entry.contains(&e2) {
            entry.push(e2);
        }
    }
    if rng.chance(1, 3) {
        rules.push((
            "top.do".into(),
            Rule {
                version: 0,
                stmts: vec![Stmt::IfChange(entry.clone())],
            },
        ));
        entry = vec!["top".into()];
    }
    let mut sc = Scenario {
        family: "c12-tangled".into(),
        files: vec![("s0".to_string(), source_content("s0", 0))],
        rules,
        ..Default::default()
    };
    let prog = if rng.chance(1, 2) { "redo" } else { "redo-ifchange" };
    let mut c = redo_cmd(rng, prog, &entry, 4, 300);
    if prog == "redo-ifchange" && rng.chance(1, 2) {
        c.make_tokens = Some(rng.range(1, 3) as u32);
    }
    sc.history.push(Step::Cmds(vec![c]));
    let mut meta = BTreeMap::new();
    meta.insert("judged_group".to_string(), serde_json::json!(0));
    Case {
        property: "C12".into(),
        seed,
        scenario: sc,
        knobs: Knobs::draw(rng),
        opts: PlayOpts {
            record_events: true,
            ..Default::default()
        },
        meta,
    }
}

impl Property for C12 {
    fn id(&self) -> &'static str {
        "C12"
    }
    fn runs(&self, tier: Tier) -> u64 {
        match tier {
            Tier::Quick => 2500,
            Tier::Thorough => 40000,
        }
    }
    fn rule(&self) -> &'static str {
        "cycles of length 1-4 among .do scripts (plain and checksummed nodes), reached directly or \
         through an acyclic prefix of 0-8 nodes, with acyclic siblings (every fifth scenario: a base cycle with chords and extra nodes, several \
         paths into the cycle, all dependencies of a script requested in one call), entered at every node, by redo or redo-ifchange at -j1..4, on a first build \
         and on a rebuild after the cycle was introduced by a rule edit; oracle: the run terminates (no \
         simulator deadlock, no step/time cap), the top-level status is non-zero, some process reports \
         a cyclic dependency (exit 208 or the message), nothing panics; non-trivial = >=1 preemption and \
         >=1 script; distinct = (scenario, preemption signature)"
    }
    fn generate(&self, rng: &mut Rng, seed: u64, _tier: Tier, index: u64) -> Case {
        if index % 5 == 4 {
            return tangled_case(rng, seed);
        }
        let len = rng.range(1, 4) as usize;
        let cyc: Vec<String> = (0..len).map(|i| format!("c{}", i)).collect();
        let mut files = vec![("s0".to_string(), source_content("s0", 0))];
        let mut rules: Vec<(String, Rule)> = Vec::new();
        // acyclic sibling
        rules.push((
            "sib.do".into(),
            Rule {
                version: 0,
                stmts: vec![Stmt::IfChange(vec!["s0".into()]), Stmt::Work(rng.range(1, 30))],
            },
        ));
        let late = index % 3 == 2; // cycle introduced by a later rule edit
        let csum_pm: u64 = if late { *rng.pick(&[0, 300, 500]) } else { *rng.pick(&[0, 0, 300]) };
        for i in 0..len {
            let next = cyc[(i + 1) % len].clone();
            let mut deps = vec![next];
            if rng.chance(1, 2) {
                deps.insert(0, "sib".into());
            }
            if rng.chance(1, 3) {
                deps.push("s0".into());
            }
            let mut stmts = vec![Stmt::IfChange(deps)];
            if csum_pm > 0 && rng.chance(csum_pm, 1000) {
                // a checksummed node: its dependents are re-checked out of
                // band (redo-unlocked) when the cycle appears later; the stamp
                // comes after the redo-ifchange or -- constant checksum, marks
                // the node as checked while its script still runs -- before it
                if rng.chance(1, 2) {
                    stmts.push(Stmt::Stamp { only: Vec::new() });
                } else {
                    stmts.insert(0, Stmt::Stamp { only: Vec::new() });
                }
            }
            rules.push((
                format!("{}.do", cyc[i]),
                Rule {
                    version: 0,
                    stmts,
                },
            ));
        }
        // acyclic prefix leading into the cycle (sometimes long, so that
        // database ids reach two digits)
        let plen = if rng.chance(1, 5) { rng.range(3, 8) as usize } else { rng.below(3) as usize };
        let mut entry = rng.pick(&cyc).clone();
        for i in 0..plen {
            let name = format!("p{}", i);
            let mut deps = vec![entry.clone()];
            if rng.chance(1, 2) {
                deps.push("sib".into());
                if rng.chance(1, 2) {
                    deps.reverse();
                }
            }
            let mut stmts = vec![Stmt::IfChange(deps)];
            if csum_pm > 0 && rng.chance(csum_pm / 2, 1000) {
                stmts.push(Stmt::Stamp { only: Vec::new() });
            }
            rules.push((
                format!("{}.do", name),
                Rule {
                    version: 0,
                    stmts,
                },
            ));
            entry = name;
        }
        files.push(("unused".into(), b"x\n".to_vec()));
        let mut sc = Scenario {
            family: "c12".into(),
            files,
            rules,
            ..Default::default()
        };
        let prog = if rng.chance(1, 2) { "redo" } else { "redo-ifchange" };
        if late {
            // break the cycle first: the last node depends only on s0
            let last = format!("{}.do", cyc[len - 1]);
            let cyclic_rule = sc.rules.iter().find(|(p, _)| *p == last).unwrap().1.clone();
            for (p, r) in sc.rules.iter_mut() {
                if *p == last {
                    r.stmts = vec![Stmt::IfChange(vec!["s0".into()])];
                }
            }
            if rng.chance(1, 2) {
                // an inner node is built (and gets its database id) before its ancestors
                let inner = rng.pick(&cyc).clone();
                sc.history
                    .push(Step::Cmds(vec![redo_cmd(rng, "redo-ifchange", &[inner], 2, 200)]));
            }
            sc.history
                .push(Step::Cmds(vec![redo_cmd(rng, "redo-ifchange", &[entry.clone()], 3, 200)]));
            if rng.chance(1, 3) {
                sc.history.push(Step::Write {
                    path: "s0".into(),
                    bytes: source_content("s0", 1),
                });
            }
            let mut nr = cyclic_rule;
            nr.version = 1;
            sc.history.push(Step::SetRule {
                path: last,
                rule: Some(nr),
            });
        }
        let mut ts = vec![entry];
        if rng.chance(1, 4) {
            ts.push("sib".into());
        }
        sc.history.push(Step::Cmds(vec![redo_cmd(rng, prog, &ts, 4, 300)]));
        let mut meta = BTreeMap::new();
        meta.insert("judged_group".to_string(), serde_json::json!(sc.history.len() - 1));
        Case {
            property: "C12".into(),
            seed,
            scenario: sc,
            knobs: Knobs::draw(rng),
            opts: PlayOpts {
            record_events: true,
            ..Default::default()
        },
            meta,
        }
    }
    fn check(&self, case: &Case, rec: &RunRecord, _obs: &dyn Observer) -> Vec<Violation> {
        let mut v = Vec::new();
        let jg = case
            .meta
            .get("judged_group")
            .and_then(|x| x.as_u64())
            .unwrap_or(0) as usize;
        for g in &rec.groups {
            if g.step_idx != jg {
                continue;
            }
            // the premise: what was requested leads, by the rules as they are
            // now, into a cycle (a shrunk scenario may have lost it)
            let world = &rec.world_after[g.step_idx];
            let req: Vec<String> = g.cmds[0].targets();
            if !leads_into_cycle(world, &req) {
                continue;
            }
            match g.outcome {
                StepOutcome::Deadlock | StepOutcome::StepLimit => {
                    let how = if g.outcome == StepOutcome::Deadlock {
                        "deadlock on a cyclic dependency"
                    } else {
                        "no termination within the step/time cap"
                    };
                    // Who waits for whose lock?  A process that blocks on a lock held
                    // by one of its own ancestors is the case REDO_CYCLES exists for.
                    // If every blocked lock wait is for a lock held by *another*
                    // branch of the process tree, the cycle was entered at two
                    // nodes in parallel (known finding C12-parallel-entry).
                    let waits = lock_waits(g);
                    // the job (child process) for which a redo process took a lock byte
                    let jobs = c06::job_lock_bytes(g);
                    // Did any process try to lock a target that one of its own
                    // ancestors is building?  redo refuses that before it touches
                    // the lock file, so such an attempt means the REDO_CYCLES check
                    // was bypassed: not the known parallel-entry deadlock.
                    let own_attempt = g.events.iter().any(|e| {
                        if !matches!(e.kind, crate::sim::EvKind::Op(crate::sim::Class::Lock)) {
                            return false;
                        }
                        let w: Vec<&str> = e.text.split(' ').collect();
                        w.len() >= 5
                            && w[1] == ".redo/locks"
                            && w[2] == "wr"
                            && jobs.iter().any(|(j, fb)| fb == w[3] && e.lid.starts_with(&format!("{}.", j)))
                    });
                    let cross = !own_attempt
                        && !waits.is_empty()
                        && waits.iter().all(|(w, b, h)| match h {
                            None => false,
                            Some(h) => {
                                // the waiter sits below the very job the lock was taken
                                // for: a cycle through its own ancestors
                                let own = jobs.iter().any(|(j, fb)| {
                                    fb == b
                                        && j.starts_with(&format!("{}.", h))
                                        && (w == j || w.starts_with(&format!("{}.", j)))
                                });
                                !own
                            }
                        });
                    if cross {
                        v.push(Violation {
                            kind: "cycle-hang-parallel-entry".into(),
                            detail: format!(
                                "{}: parallel-entry: every blocked process waits for a lock held by another branch {:?}: {}",
                                how, waits, g.deadlock_report
                            ),
                        });
                    } else {
                        v.push(Violation {
                            kind: "cycle-hang".into(),
                            detail: format!("{}: {} [lock waits {:?}]", how, g.deadlock_report, waits),
                        });
                    }
                }
                _ => {}
            }
            if let Some(p) = has_panic(g) {
                v.push(Violation {
                    kind: "cycle-panic".into(),
                    detail: p,
                });
                continue;
            }
            if g.outcome != StepOutcome::AllDead {
                continue;
            }
            let r = &g.results[0];
            if r.status == Some(0) && !dynamic_cycle_request(g) {
                // No script asked for a target that one of its ancestors was
                // building: the chain of redo-ifchange calls never came back (a
                // node in between was clean, e.g. behind an unchanged checksum).
                // The statement is about chains of calls; nothing to judge.
                continue;
            }
            if r.status == Some(0) {
                v.push(Violation {
                    kind: "cycle-success".into(),
                    detail: format!(
                        "{:?} exited 0 although the requested targets lead into a dependency cycle; stderr: {}",
                        g.cmds[0].argv,
                        c09::tail(&r.stderr, 400)
                    ),
                });
                continue;
            }
            let any208 = g.procs.iter().any(|p| p.status == Some(208));
            let msg = r.stderr.contains("yclic") || r.stdout.contains("yclic");
            if !any208 && !msg {
                v.push(Violation {
                    kind: "cycle-not-identified".into(),
                    detail: format!(
                        "{:?} failed with {:?} but no process exited 208 or mentioned a cyclic dependency; stderr: {}",
                        g.cmds[0].argv,
                        r.status,
                        c09::tail(&r.stderr, 600)
                    ),
                });
            }
        }
        v
    }
}

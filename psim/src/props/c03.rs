//! C03 -- checksum cut-off: redo-stamp stops and forwards change exactly.

use super::c02::judge_rebuild_sets;
use super::gen::*;
use super::oracle::*;
use super::*;
use crate::dsl::*;

pub struct C03;

impl Property for C03 {
    fn id(&self) -> &'static str {
        "C03"
    }
    fn runs(&self, tier: Tier) -> u64 {
        match tier {
            Tier::Quick => 800,
            Tier::Thorough => 16000,
        }
    }
    fn rule(&self) -> &'static str {
        "chains and diamonds with checksummed targets at depth 1-3 (some also redo-always, some with \
         noise lines that change the bytes but not the checksum), plain and always dependents on top; \
         histories of 3-8 steps: source edits that do or do not reach a checksummed target's stamped \
         content (a checksummed target may read only one of two sources), edits that restore an earlier \
         content (the checksum returns to an old value), rule edits that drop and re-add the redo-stamp \
         call, removal of a checksummed target's file, unchanged repeats; both the direct path (the checksummed target is requested) \
         and the out-of-band path (a dependent is requested); oracle: SeenModel must/may sets (a rebuilt \
         checksummed target with unchanged checksum never makes a dependent must- or may-run; a changed \
         one makes every recorded dependent in the requested closure must-run) plus from-scratch \
         freshness after every successful command; non-trivial = >=1 preemption and >=1 script; \
         distinct = (scenario, preemption signature)"
    }
    fn generate(&self, rng: &mut Rng, seed: u64, _tier: Tier, _index: u64) -> Case {
        let nsrc = 2;
        let sources: Vec<String> = (0..nsrc).map(source_name).collect();
        let mut files: Vec<(String, Vec<u8>)> =
            sources.iter().map(|s| (s.clone(), source_content(s, 0))).collect();
        files.push(("pad".into(), b"-\n".to_vec()));
        let depth = rng.range(1, 3) as usize;
        let mut rules: Vec<(String, Rule)> = Vec::new();
        let mut names: Vec<String> = Vec::new();
        // checksummed chain c0 <- c1 <- c2 (c0 reads sources)
        for d in 0..depth {
            let n = format!("c{}", d);
            let mut stmts = Vec::new();
            if rng.chance(1, 3) {
                stmts.push(Stmt::Always);
            }
            if d == 0 {
                // reads one or both sources
                let mut ds = vec![sources[0].clone()];
                if rng.chance(1, 2) {
                    ds.push(sources[1].clone());
                }
                stmts.push(Stmt::IfChange(ds));
            } else {
                let mut ds = vec![format!("c{}", d - 1)];
                if rng.chance(1, 3) {
                    ds.push(sources[1].clone());
                }
                stmts.push(Stmt::IfChange(ds));
            }
            if rng.chance(1, 2) {
                stmts.push(Stmt::Noise);
            }
            if rng.chance(1, 2) {
                stmts.insert(0, Stmt::Out { mode: OutMode::File, pad: 0 });
            }
            stmts.push(Stmt::Stamp { only: Vec::new() });
            rules.push((format!("{}.do", n), Rule { version: 0, stmts }));
            names.push(n);
        }
        // dependents
        let top_c = format!("c{}", depth - 1);
        let ndep = rng.range(1, 3) as usize;
        let mut dependents = Vec::new();
        for i in 0..ndep {
            let n = format!("d{}", i);
            let mut ds = vec![rng.pick(&names).clone()];
            if rng.chance(1, 2) && !ds.contains(&top_c) {
                ds.push(top_c.clone());
            }
            if rng.chance(1, 3) {
                ds.push(sources[1].clone());
            }
            let mut stmts = vec![Stmt::IfChange(ds)];
            if rng.chance(1, 5) {
                stmts.insert(0, Stmt::Always);
            }
            rules.push((format!("{}.do", n), Rule { version: 0, stmts }));
            dependents.push(n);
        }
        let mut all_deps = dependents.clone();
        if rng.chance(1, 2) {
            all_deps.push(top_c.clone());
        }
        rules.push((
            "all.do".into(),
            Rule {
                version: 0,
                stmts: vec![Stmt::IfChange(all_deps)],
            },
        ));
        let mut sc = Scenario {
            family: "c03".into(),
            files,
            rules,
            ..Default::default()
        };
        let mut ver = vec![0u32; nsrc];
        let pick_target = |rng: &mut Rng| -> String {
            match rng.below(4) {
                0 => "all".to_string(),
                1 => rng.pick(&names).clone(),
                _ => rng.pick(&dependents).clone(),
            }
        };
        let t0 = if rng.chance(2, 3) { "all".to_string() } else { pick_target(rng) };
        sc.history
            .push(Step::Cmds(vec![redo_cmd(rng, "redo-ifchange", &[t0], 3, 100)]));
        // toggle the redo-stamp call of a checksummed target (same rule version,
        // so the produced bytes do not change with it)
        let toggle_stamp = |sc: &mut Scenario, rng: &mut Rng, names: &[String]| {
            let n = rng.pick(names).clone();
            let path = format!("{}.do", n);
            if let Some(mut rule) = current_rule(sc, &path) {
                if let Some(k) = rule.stmts.iter().position(|s| matches!(s, Stmt::Stamp { .. })) {
                    rule.stmts.remove(k);
                } else {
                    rule.stmts.push(Stmt::Stamp { only: Vec::new() });
                }
                sc.history.push(Step::SetRule { path, rule: Some(rule) });
            }
        };
        if rng.chance(1, 5) {
            // a content (and checksum) that goes away and comes back: stamped with
            // source version a, rebuilt unstamped with version b, stamped again with a
            let path = "c0.do".to_string();
            let stamped = current_rule(&sc, &path).unwrap();
            let mut plain = stamped.clone();
            plain.stmts.retain(|s| !matches!(s, Stmt::Stamp { .. }));
            let t = pick_target(rng);
            sc.history.push(Step::SetRule { path: path.clone(), rule: Some(plain) });
            ver[0] += 1;
            sc.history.push(Step::Write { path: sources[0].clone(), bytes: source_content(&sources[0], ver[0]) });
            sc.history.push(Step::Cmds(vec![redo_cmd(rng, "redo-ifchange", &[t.clone()], 3, 100)]));
            sc.history.push(Step::SetRule { path, rule: Some(stamped) });
            ver[0] -= 1;
            sc.history.push(Step::Write { path: sources[0].clone(), bytes: source_content(&sources[0], ver[0]) });
            sc.history.push(Step::Cmds(vec![redo_cmd(rng, "redo-ifchange", &[t], 3, 100)]));
        }
        let steps = rng.range(3, 8);
        let mut since = 0;
        for _ in 0..steps {
            let r = rng.below(100);
            if since < 2 && r >= 92 {
                toggle_stamp(&mut sc, rng, &names);
                since += 1;
            } else if since >= 2 || r < 45 {
                let t = pick_target(rng);
                let prog = if rng.chance(1, 6) { "redo" } else { "redo-ifchange" };
                sc.history
                    .push(Step::Cmds(vec![redo_cmd(rng, prog, &[t], 3, 100)]));
                since = 0;
            } else if r < 75 {
                let i = rng.below(nsrc as u64) as usize;
                // forward to a new version, or back to the previous content
                if ver[i] > 0 && rng.chance(1, 3) {
                    ver[i] -= 1;
                } else {
                    ver[i] += 1;
                }
                sc.history.push(Step::Write {
                    path: sources[i].clone(),
                    bytes: source_content(&sources[i], ver[i]),
                });
                since += 1;
            } else {
                // remove the file of a checksummed target (or a dependent)
                let t = if rng.chance(2, 3) {
                    rng.pick(&names).clone()
                } else {
                    rng.pick(&dependents).clone()
                };
                sc.history.push(Step::Remove { path: t });
                since += 1;
            }
        }
        sc.history
            .push(Step::Cmds(vec![redo_cmd(rng, "redo-ifchange", &["all".to_string()], 2, 100)]));
        sc.history
            .push(Step::Cmds(vec![redo_cmd(rng, "redo-ifchange", &["all".to_string()], 1, 100)]));
        Case {
            property: "C03".into(),
            seed,
            scenario: sc,
            knobs: Knobs::draw(rng),
            opts: PlayOpts::default(),
            meta: BTreeMap::new(),
        }
    }
    fn check(&self, case: &Case, rec: &RunRecord, _obs: &dyn Observer) -> Vec<Violation> {
        let mut v = judge_rebuild_sets(
            rec,
            case,
            ("changed-checksum-not-forwarded", "rebuilt-despite-unchanged-checksum"),
            |_, _, _, _| {},
        );
        for g in &rec.groups {
            if !judgeable(g) || g.results[0].status != Some(0) {
                continue;
            }
            let cmd = &g.cmds[0];
            let ts: Vec<String> = cmd
                .targets()
                .iter()
                .filter_map(|a| arg_path(&cmd.cwd, a))
                .collect();
            let mut f = freshness(rec, g.step_idx, &ts);
            for x in f.iter_mut() {
                x.kind = "changed-checksum-not-forwarded".into();
                x.detail = format!("{:?}: {}", cmd.argv, x.detail);
            }
            v.extend(f);
        }
        v
    }
    fn probes(&self, case: &Case, rec: &RunRecord) -> BTreeMap<String, u64> {
        let mut m = BTreeMap::new();
        for g in &rec.groups {
            if g.procs.iter().any(|p| p.name == "redo-unlocked") {
                *m.entry("out_of_band_path_taken".to_string()).or_insert(0) += 1;
            }
        }
        let _ = judge_rebuild_sets(rec, case, ("a", "b"), |g, e, ran, model| {
            // a checksummed target that ran while none of its recorded dependents had to
            for t in ran.keys() {
                if model.seen.get(t).map_or(false, |s| s.csum) && e.must.contains(t) {
                    let dependents_cut = model
                        .seen
                        .iter()
                        .filter(|(d, s)| s.deps.iter().any(|(x, _)| x == t) && !e.must.contains(*d) && !ran.contains_key(*d))
                        .count() as u64;
                    *m.entry("cutoff_dependents_left_alone".to_string()).or_insert(0) += dependents_cut;
                }
            }
            let _ = g;
        });
        m
    }
}

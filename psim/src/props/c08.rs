//! C08 -- job tokens are conserved and -j is respected.

use super::gen::*;
use super::oracle::*;
use super::*;
use crate::dsl::*;
use crate::sim::{Class, EvKind, Sim};
use std::collections::BTreeSet;

pub struct C08;

/// Watches the token pipe and the scripts inside `work` sections at every
/// quiescent point.
pub struct TokenObserver {
    /// -j limit of the judged group (own jobserver) or the make token count + 1
    limit: u32,
    judged_group: usize,
    pipe_fd: i32,
    seen_events: usize,
    working: BTreeSet<String>,
    pub max_working: u32,
    pub max_sum: u32,
    pub first_excess: Option<String>,
    pub samples: u64,
    pub followers_seen: bool,
    /// lids of nested `redo -j1 ...` processes: the subtree below each is serial
    serial_roots: BTreeSet<String>,
    pub nested_excess: Option<String>,
}

impl TokenObserver {
    fn pipe_bytes(&mut self, sim: &Sim) -> Option<u32> {
        if self.pipe_fd < 0 {
            if let Some((_, fd)) = sim.watch_fds.first() {
                self.pipe_fd = unsafe { libc::dup(*fd) };
            } else if let Some(top) = sim.procs.iter().find(|p| p.lid == "c0" && p.alive()) {
                let path = format!("/proc/{}/fd/100", top.pid);
                if let Ok(md) = std::fs::metadata(&path) {
                    use std::os::unix::fs::FileTypeExt;
                    if md.file_type().is_fifo() {
                        let c = std::ffi::CString::new(path).unwrap();
                        self.pipe_fd =
                            unsafe { libc::open(c.as_ptr(), libc::O_RDONLY | libc::O_NONBLOCK) };
                    }
                }
            }
        }
        if self.pipe_fd < 0 {
            return None;
        }
        let mut n: libc::c_int = 0;
        let r = unsafe { libc::ioctl(self.pipe_fd, libc::FIONREAD, &mut n) };
        if r < 0 {
            None
        } else {
            Some(n as u32)
        }
    }
}

impl Drop for TokenObserver {
    fn drop(&mut self) {
        if self.pipe_fd >= 0 {
            unsafe { libc::close(self.pipe_fd) };
        }
    }
}

impl Observer for TokenObserver {
    fn group_start(&mut self, _group: usize, _root: &std::path::Path) {
        if self.pipe_fd >= 0 {
            unsafe { libc::close(self.pipe_fd) };
            self.pipe_fd = -1;
        }
        self.seen_events = 0;
        self.working.clear();
        self.serial_roots.clear();
    }
    fn at_quiescent(&mut self, sim: &Sim, group: usize) {
        if group != self.judged_group {
            return;
        }
        for e in &sim.events[self.seen_events.min(sim.events.len())..] {
            match &e.kind {
                EvKind::Op(Class::Event) => {
                    if e.text.starts_with("work-begin") && e.lid.starts_with("c0.") {
                        self.working.insert(e.lid.clone());
                    } else if e.text.starts_with("work-end") {
                        self.working.remove(&e.lid);
                    }
                }
                EvKind::Dead => {
                    self.working.remove(&e.lid);
                }
                EvKind::Op(Class::Proc) if e.text.starts_with("exec redo -j1 ") && e.lid.contains('.') => {
                    self.serial_roots.insert(e.lid.clone());
                }
                _ => {}
            }
        }
        self.seen_events = sim.events.len();
        // a work-end event is logged when the script parks on it; it has left
        // the section only once that yield was released, which is fine: it is
        // conservative in the direction of counting less
        let w = self.working.len() as u32;
        let followers = sim
            .procs
            .iter()
            .filter(|p| p.alive() && p.base_name() == "redo-log" && p.lid.starts_with("c0."))
            .count() as u32;
        if followers > 0 {
            self.followers_seen = true;
        }
        // below a nested `redo -j1` at most one script works at a time (plus the
        // one the log viewer follows)
        for root in &self.serial_roots {
            let prefix = format!("{}.", root);
            let inside: Vec<&String> = self.working.iter().filter(|l| l.starts_with(&prefix)).collect();
            if inside.len() as u32 > 1 + followers.min(1) && self.nested_excess.is_none() {
                self.nested_excess = Some(format!(
                    "at step {}: {} scripts inside their work section ({:?}) below the nested `redo -j1` process {}",
                    sim.step,
                    inside.len(),
                    inside,
                    root
                ));
            }
        }
        let b = self.pipe_bytes(sim).unwrap_or(0);
        self.samples += 1;
        self.max_working = self.max_working.max(w);
        self.max_sum = self.max_sum.max(w + b);
        if w + b > self.limit + followers && self.first_excess.is_none() {
            self.first_excess = Some(format!(
                "at step {}: {} scripts inside their work section ({:?}) + {} free tokens in the pipe > limit {} (+{} log follower)",
                sim.step,
                w,
                self.working.iter().collect::<Vec<_>>(),
                b,
                self.limit,
                followers
            ));
        }
    }
}

impl Property for C08 {
    fn id(&self) -> &'static str {
        "C08"
    }
    fn runs(&self, tier: Tier) -> u64 {
        match tier {
            Tier::Quick => 1500,
            Tier::Thorough => 30000,
        }
    }
    fn rule(&self) -> &'static str {
        "wide and nested fans (every script holds its job for a drawn simulated duration) built by redo \
         -jN (own jobserver, N=1..8) or under an inherited make-style jobserver with K=0..6 tokens, log \
         capture on (token cheating possible) and off, with succeeding and failing scripts and (every fifth scenario) an error exit (a name \
         below a regular file on the command line, jobs of the other names still running), optionally \
         with a second command contending for the same targets so that lock waits give up tokens; \
         select-stall faults make child exits and token arrivals coincide (drawn stalls, and in a quarter of \
         the scenarios four follow-up runs that hold back one chosen wake-up each until nothing else can run); oracle at every scheduling \
         step: scripts inside a work section + bytes in the token pipe <= N (+1 per live redo-log); at \
         the end: no 'expected N tokens' self-check failure, exit status as the scripts dictate, and \
         exactly K bytes left in an inherited pipe; every eighth scenario nests `redo -j1 mid` below the \
         parallel build: at most one script (plus the one the log viewer follows) works below it at any step; non-trivial = >=1 preemption and >=1 script; distinct \
         = (scenario, preemption signature)"
    }
    fn generate(&self, rng: &mut Rng, seed: u64, _tier: Tier, index: u64) -> Case {
        // fan: top -> m inner -> leaves
        let width = rng.range(2, 6) as usize;
        let inner = rng.range(0, 3) as usize;
        let mut files = vec![("s0".to_string(), source_content("s0", 0))];
        let mut rules: Vec<(String, Rule)> = Vec::new();
        let mut leaves: Vec<String> = Vec::new();
        for i in 0..width {
            let n = format!("l{}", i);
            let mut stmts = vec![Stmt::IfChange(vec!["s0".into()]), Stmt::Work(rng.range(1, 200))];
            if rng.chance(1, 6) {
                stmts.push(Stmt::Stamp { only: vec![] });
            }
            rules.push((format!("{}.do", n), Rule { version: 0, stmts }));
            leaves.push(n);
        }
        let mut mids = Vec::new();
        for i in 0..inner {
            let n = format!("m{}", i);
            let mut deps: Vec<String> = leaves.clone();
            rng.shuffle(&mut deps);
            deps.truncate(rng.range(1, width as u64) as usize);
            rules.push((
                format!("{}.do", n),
                Rule {
                    version: 0,
                    stmts: vec![Stmt::IfChange(deps), Stmt::Work(rng.range(1, 100))],
                },
            ));
            mids.push(n);
        }
        #[allow(unused_assignments)]
        let mut top_deps: Vec<String> = mids.clone();
        top_deps.extend(leaves.iter().cloned());
        rng.shuffle(&mut top_deps);
        let fail = rng.chance(1, 4);
        if fail {
            files.push(("f0".into(), b"1\n".to_vec()));
            let victim = rng.below(rules.len() as u64) as usize;
            rules[victim].1.stmts.push(Stmt::FailIf {
                flag: "f0".into(),
                code: 3,
                partial: false,
                direct: false,
            });
        }
        rules.push((
            "top.do".into(),
            Rule {
                version: 0,
                stmts: vec![Stmt::IfChange(top_deps.clone())],
            },
        ));
        let nested_serial = index % 8 == 6;
        if nested_serial {
            // top -> `redo -j1 mid` -> redo-ifchange of all leaves: the subtree
            // the user asked to serialize
            rules.retain(|(p, _)| p.starts_with('l'));
            for (_, r) in rules.iter_mut() {
                r.stmts.retain(|st| !matches!(st, Stmt::FailIf { .. }));
            }
            let mut ls = leaves.clone();
            rng.shuffle(&mut ls);
            rules.push((
                "mid.do".into(),
                Rule {
                    version: 0,
                    stmts: vec![Stmt::IfChange(ls)],
                },
            ));
            rules.push((
                "top.do".into(),
                Rule {
                    version: 0,
                    stmts: vec![Stmt::Redo(vec!["-j1".into(), "mid".into()])],
                },
            ));
            top_deps = vec!["top".into()];
        }
        let cheat_prone = index % 4 == 3;
        if cheat_prone {
            // A and B share X; C.. hold tokens for long: the second waiter for X
            // gives up its token, finds the pipe empty later and, once it is the
            // job redo-log follows, cheats
            rules.clear();
            let nshare = rng.range(2, 3) as usize;
            let nlong = rng.range(1, 3) as usize;
            let mut deps = Vec::new();
            rules.push((
                "x.do".into(),
                Rule {
                    version: 0,
                    stmts: vec![Stmt::IfChange(vec!["s0".into()]), Stmt::Work(rng.range(5, 80))],
                },
            ));
            for i in 0..nshare {
                let n = format!("a{}", i);
                // `redo x`: the waiter builds x again once it has the lock, i.e.
                // a process that may be running on a borrowed token starts a job
                let mut st = vec![if rng.chance(1, 3) {
                    Stmt::Redo(vec!["x".into()])
                } else {
                    Stmt::IfChange(vec!["x".into()])
                }];
                if rng.chance(1, 2) {
                    st.push(Stmt::Work(rng.range(1, 30)));
                }
                rules.push((format!("{}.do", n), Rule { version: 0, stmts: st }));
                deps.push(n);
            }
            for i in 0..nlong {
                let n = format!("w{}", i);
                rules.push((
                    format!("{}.do", n),
                    Rule {
                        version: 0,
                        stmts: vec![Stmt::Work(rng.range(100, 900))],
                    },
                ));
                deps.push(n);
            }
            if rng.chance(1, 2) {
                rng.shuffle(&mut deps);
            }
            top_deps = deps.clone();
            leaves = vec!["x".into()];
            rules.push((
                "top.do".into(),
                Rule {
                    version: 0,
                    stmts: vec![Stmt::IfChange(deps)],
                },
            ));
        }
        let mut sc = Scenario {
            family: "c08".into(),
            files,
            rules,
            ..Default::default()
        };
        // the cheat-prone shape runs under its own jobserver or, half of the
        // time, under an inherited make-style one (the cheat pipe must then be
        // handed down by redo itself)
        let inherited = if cheat_prone { rng.chance(1, 2) } else { index % 3 == 2 };
        let mut meta = BTreeMap::new();
        let log_pm = if cheat_prone { 1000 } else { *rng.pick(&[0u64, 700, 1000, 1000]) };
        let mut cmds = Vec::new();
        let limit;
        // name several targets on the command line so that the top-level
        // process itself juggles jobs and tokens
        let mut ts: Vec<String> = if cheat_prone || rng.chance(1, 2) {
            vec!["top".into()]
        } else {
            let mut v = top_deps.clone();
            v.truncate(rng.range(2, v.len().max(2) as u64) as usize);
            v
        };
        if rng.chance(1, 3) {
            ts.push("top".into());
            ts.dedup();
        }
        // error exit: one name lies below a regular file (stat fails with
        // ENOTDIR, an internal error and not a failed script); redo gives up
        // with jobs of the other names possibly still running
        let internal_error = !cheat_prone && index % 5 == 4;
        if internal_error {
            let mut v = top_deps.clone();
            v.truncate(rng.range(2, v.len().max(2) as u64) as usize);
            let at = rng.range(1, v.len() as u64) as usize;
            v.insert(at, "s0/x".into());
            ts = v;
            meta.insert("internal_error".to_string(), serde_json::json!(true));
        }
        if inherited {
            let k = if cheat_prone { rng.range(1, 2) as u32 } else { rng.range(0, 6) as u32 };
            let prog = if rng.chance(1, 2) { "redo" } else { "redo-ifchange" };
            let mut c = redo_cmd(rng, prog, &ts, 1, log_pm);
            c.argv.retain(|a| !a.starts_with("-j"));
            c.make_tokens = Some(k);
            limit = k + 1;
            meta.insert("make_tokens".to_string(), serde_json::json!(k));
            cmds.push(c);
        } else {
            let j = if cheat_prone { rng.range(2, 3) } else { *rng.pick(&[1u64, 2, 2, 3, 3, 4, 6, 8]) };
            let mut c = redo_cmd(rng, "redo", &ts, 1, log_pm);
            c.argv.retain(|a| !a.starts_with("-j"));
            c.argv.insert(1, format!("-j{}", j));
            limit = j as u32;
            cmds.push(c);
            if rng.chance(1, 2) {
                // a contender with its own jobserver: forces lock waits in c0's tree
                let t = rng.pick(&leaves).clone();
                let mut c2 = redo_cmd(rng, "redo-ifchange", &[t], 1, 0);
                c2.start_step = rng.range(0, 400);
                cmds.push(c2);
            }
        }
        if rng.chance(1, 3) {
            // state exists already (and the leaves are built once)
            sc.history.push(Step::Cmds(vec![redo_cmd(rng, "redo-ifchange", &[leaves[0].clone()], 1, 0)]));
            sc.history.push(Step::Write {
                path: "s0".into(),
                bytes: source_content("s0", 1),
            });
        }
        meta.insert("limit".to_string(), serde_json::json!(limit));
        meta.insert("judged_group".to_string(), serde_json::json!(sc.history.len()));
        meta.insert("expect_fail".to_string(), serde_json::json!(fail));
        sc.history.push(Step::Cmds(cmds));
        let mut knobs = Knobs::draw(rng);
        if knobs.stall_pm == 0 && rng.chance(1, 2) {
            knobs.stall_pm = 30;
        }
        Case {
            property: "C08".into(),
            seed,
            scenario: sc,
            knobs,
            opts: PlayOpts {
                record_events: true,
                ..Default::default()
            },
            meta,
        }
    }
    fn follow_ups(&self, case: &Case, first: &RunRecord) -> Vec<Case> {
        // wake-up plans (see c09::wake_plans): the judged command group is run
        // again with one select/poll wake-up of a redo process held back until
        // nothing else can run, for a few wake-ups spread over the recorded run
        if case.opts.stall_at.is_some() || case.seed % 4 != 1 {
            return Vec::new();
        }
        let jg = case.meta.get("judged_group").and_then(|x| x.as_u64()).unwrap_or(0) as usize;
        let g = match first.groups.iter().find(|g| g.step_idx == jg) {
            Some(g) => g,
            None => return Vec::new(),
        };
        let m = g.wake_count;
        let n = 4u64;
        if m == 0 {
            return Vec::new();
        }
        let stride = (m / n).max(1);
        (0..n.min(m))
            .map(|j| {
                let mut c = case.clone();
                c.opts.stall_at = Some((jg, j * stride + case.seed % stride));
                c
            })
            .collect()
    }
    fn observer(&self, case: &Case) -> Box<dyn Observer> {
        Box::new(TokenObserver {
            limit: case.meta.get("limit").and_then(|x| x.as_u64()).unwrap_or(1) as u32,
            judged_group: case
                .meta
                .get("judged_group")
                .and_then(|x| x.as_u64())
                .unwrap_or(0) as usize,
            pipe_fd: -1,
            seen_events: 0,
            working: BTreeSet::new(),
            max_working: 0,
            max_sum: 0,
            first_excess: None,
            samples: 0,
            followers_seen: false,
            serial_roots: BTreeSet::new(),
            nested_excess: None,
        })
    }
    fn check(&self, case: &Case, rec: &RunRecord, obs: &dyn Observer) -> Vec<Violation> {
        let mut v = Vec::new();
        let jg = case
            .meta
            .get("judged_group")
            .and_then(|x| x.as_u64())
            .unwrap_or(0) as usize;
        let g = match rec.groups.iter().find(|g| g.step_idx == jg) {
            Some(g) => g,
            None => return v,
        };
        if !judgeable(g) {
            return v;
        }
        // SAFETY of the downcast: the observer of this property is always a TokenObserver
        let to: &TokenObserver = unsafe { &*(obs as *const dyn Observer as *const TokenObserver) };
        if let Some(e) = &to.first_excess {
            v.push(Violation {
                kind: "token-limit-exceeded".into(),
                detail: format!("{:?}: {}", g.cmds[0].argv, e),
            });
        }
        if let Some(e) = &to.nested_excess {
            v.push(Violation {
                kind: "nested-serial-exceeded".into(),
                detail: format!("{:?}: {}", g.cmds[0].argv, e),
            });
        }
        for (k, r) in g.results.iter().enumerate() {
            if r.stderr.contains("on exit: expected") || r.stdout.contains("on exit: expected") {
                v.push(Violation {
                    kind: "token-selfcheck".into(),
                    detail: format!(
                        "cmd {} {:?}: {}",
                        k,
                        g.cmds[k].argv,
                        r.stderr
                            .lines()
                            .find(|l| l.contains("on exit: expected"))
                            .unwrap_or("")
                    ),
                });
            }
        }
        if let Some(k) = case.meta.get("make_tokens").and_then(|x| x.as_u64()) {
            if let Some(Some(left)) = g.make_left.first() {
                if *left as u64 != k {
                    v.push(Violation {
                        kind: "inherited-tokens-not-returned".into(),
                        detail: format!(
                            "{:?} ran under a make jobserver holding {} tokens; {} are in the pipe after it exited with {:?}",
                            g.cmds[0].argv, k, left, g.results[0].status
                        ),
                    });
                }
            }
        }
        let expect_fail = case
            .meta
            .get("expect_fail")
            .and_then(|x| x.as_bool())
            .unwrap_or(false);
        let world = &rec.world_after[g.step_idx];
        let cmd = &g.cmds[0];
        let cone = cmd
            .targets()
            .iter()
            .filter_map(|a| arg_path(&cmd.cwd, a))
            .any(|t| matches!(world.eval(&t), Err(crate::model::EvalErr::Fail(_))));
        let st = g.results[0].status;
        let internal_error = case.meta.get("internal_error").and_then(|x| x.as_bool()).unwrap_or(false);
        if internal_error {
            if st == Some(0) {
                v.push(Violation {
                    kind: "status-wrong".into(),
                    detail: format!("{:?} exited 0 although a name on its command line cannot be examined", cmd.argv),
                });
            }
        } else if !v.iter().any(|x| x.kind == "token-selfcheck") {
            if cone && st == Some(0) {
                v.push(Violation {
                    kind: "status-wrong".into(),
                    detail: format!("{:?} exited 0 although a needed script fails", cmd.argv),
                });
            }
            if !cone && st != Some(0) {
                v.push(Violation {
                    kind: "status-wrong".into(),
                    detail: format!(
                        "{:?} exited {:?} although all needed scripts succeed; stderr: {}",
                        cmd.argv,
                        st,
                        c09::tail(&g.results[0].stderr, 400)
                    ),
                });
            }
        }
        let _ = expect_fail;
        v
    }
    fn probes(&self, _case: &Case, rec: &RunRecord) -> BTreeMap<String, u64> {
        let mut m = BTreeMap::new();
        for g in &rec.groups {
            *m.entry("eintr_on_token_read".to_string()).or_insert(0) +=
                g.fault_counts.get("eintr").copied().unwrap_or(0);
            *m.entry("select_stalls".to_string()).or_insert(0) +=
                g.fault_counts.get("stall").copied().unwrap_or(0);
            let lw = g
                .events
                .iter()
                .filter(|e| e.text.starts_with("exec redo-log"))
                .count() as u64;
            *m.entry("runs_with_log_follower".to_string()).or_insert(0) += lw.min(1);
            let cw = g
                .events
                .iter()
                .filter(|e| matches!(e.kind, EvKind::Op(Class::Pipe)) && e.text.starts_with("write fd103 "))
                .count() as u64;
            *m.entry("cheat_pipe_writes".to_string()).or_insert(0) += cw;
            let lw2 = g
                .events
                .iter()
                .filter(|e| e.lid.starts_with("c0.") && e.text.starts_with("setlkw .redo/locks wr") && !e.text.contains(" 0 1"))
                .count() as u64;
            *m.entry("lock_waits_in_tree".to_string()).or_insert(0) += lw2;
            let tr = g
                .events
                .iter()
                .filter(|e| matches!(e.kind, EvKind::Op(Class::Pipe)) && e.text.starts_with("read fd100 "))
                .count() as u64;
            *m.entry("token_pipe_reads".to_string()).or_insert(0) += tr;
            if g.results.iter().any(|r| r.stderr.contains("Not a directory")) {
                *m.entry("internal_error_exit".to_string()).or_insert(0) += 1;
            }
        }
        m
    }
}

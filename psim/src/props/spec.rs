//! `SeenModel`: the reference for "which scripts must / may / must not run"
//! (C02, C03, C14, C17).  Written from the property texts: per target it
//! remembers what the target's last successful build consumed (rule, absent
//! higher-priority candidates, the bytes of every declared dependency) and
//! compares that with what the dependencies are now, or will be after this
//! command according to the from-scratch evaluator.  No run ids, no stamps,
//! no SQL.

use crate::driver::*;
use crate::dsl::*;
use crate::model::*;
use std::collections::{BTreeMap, BTreeSet};

#[derive(Clone, Debug)]
pub struct Seen {
    pub ok: bool,
    pub rule_path: String,
    pub rule_text: String,
    pub absent: Vec<String>,
    /// (root-relative path, bytes without noise lines; None = did not exist)
    pub deps: Vec<(String, Option<Vec<u8>>)>,
    pub ifcreate: Vec<String>,
    pub always: bool,
    pub csum: bool,
    pub produced: Option<Vec<u8>>,
    pub built_seq: u64,
    /// sequence number of the last build that counted as a change for the
    /// dependents: any build of a plain target, the first stamped build, and a
    /// stamped build whose (noise-free) bytes differ from the previous ones
    pub changed_seq: u64,
    /// user rewrites (World::touch) of the rule file and of every dependency
    /// at the time of the build
    pub touches: Vec<(String, u64)>,
}

#[derive(Clone, Debug, Default)]
pub struct SeenModel {
    pub seen: BTreeMap<String, Seen>,
    pub seq: u64,
}

#[derive(Clone, Debug, Default)]
pub struct Expect {
    pub must: BTreeSet<String>,
    pub may: BTreeSet<String>,
    /// why each must-run target must run
    pub why: BTreeMap<String, String>,
}

/// What the script of `target` declares under `world`: (ifchange deps,
/// ifcreate paths, always?, checksummed?), all root-relative.  `read` gives
/// the bytes of a path as the script would see them (for `switch`).
pub fn declared(
    world: &World,
    target: &str,
    read: &dyn Fn(&str) -> Option<Vec<u8>>,
) -> Option<(Candidate, Vec<String>, Vec<String>, bool, bool)> {
    let (cand, rule) = world.rule_for(target)?;
    let mut cwd = cand.do_dir.clone();
    let mut deps = Vec::new();
    let mut ifc = Vec::new();
    let mut always = false;
    let mut csum = false;
    for st in &rule.stmts {
        match st {
            Stmt::IfChange(v) => {
                for p in v {
                    if let Some(a) = join_norm(&cwd, p) {
                        deps.push(a);
                    }
                }
            }
            Stmt::Switch { sel, even, odd } => {
                if let Some(sp) = join_norm(&cwd, sel) {
                    let b = read(&sp).unwrap_or_default();
                    deps.push(sp);
                    let pick = if source_version(&b) % 2 == 0 { even } else { odd };
                    if let Some(pp) = join_norm(&cwd, pick) {
                        deps.push(pp);
                    }
                }
            }
            Stmt::IfCreate(v) => {
                for p in v {
                    if let Some(a) = join_norm(&cwd, p) {
                        ifc.push(a);
                    }
                }
            }
            Stmt::IfExists(p) => {
                if let Some(a) = join_norm(&cwd, p) {
                    if read(&a).is_some() {
                        deps.push(a);
                    } else {
                        ifc.push(a);
                    }
                }
            }
            Stmt::Always => always = true,
            Stmt::Stamp { .. } => csum = true,
            Stmt::Chdir(d) => {
                if let Some(n) = join_norm(&cwd, d) {
                    cwd = n;
                }
            }
            _ => {}
        }
    }
    Some((cand, deps, ifc, always, csum))
}

struct Ctx<'a> {
    m: &'a SeenModel,
    world: &'a World,
    fs: &'a BTreeMap<String, FileSnap>,
    forced: BTreeSet<String>,
    /// assume that every checksummed target that must be rebuilt changes
    pessimistic: bool,
    memo: BTreeMap<String, (bool, String)>,
    eval_memo: BTreeMap<String, Result<Built, EvalErr>>,
    stack: Vec<String>,
}

impl<'a> Ctx<'a> {
    fn is_target(&self, p: &str) -> bool {
        !self.world.is_user_file(p) && self.world.rule_for(p).is_some()
    }

    /// bytes (without noise) the path will have once this command is done
    fn cur(&mut self, d: &str) -> Option<Vec<u8>> {
        if let Some(r) = self.world.rules.get(d) {
            return Some(r.to_text("").into_bytes());
        }
        if self.world.is_user_file(d) {
            return self.world.files.get(d).map(|f| strip_noise(&f.bytes));
        }
        if self.pessimistic && self.is_target(d) && !self.plain_target(d) && self.needs_rebuild(d, 0) {
            return Some(b"<assumed changed>".to_vec());
        }
        if self.is_target(d) && self.must(d).0 {
            return match self.world.eval_memo(d, &mut self.eval_memo) {
                Ok(Built::Bytes(b)) => Some(strip_noise(&b)),
                Ok(Built::Absent) => None,
                Err(_) => Some(b"<unbuildable>".to_vec()),
            };
        }
        self.fs.get(d).map(|s| strip_noise(&s.bytes))
    }

    fn must(&mut self, t: &str) -> (bool, String) {
        if let Some(r) = self.memo.get(t) {
            return r.clone();
        }
        if self.stack.iter().any(|s| s == t) {
            return (false, String::new());
        }
        self.stack.push(t.to_string());
        let r = self.must_uncached(t);
        self.stack.pop();
        self.memo.insert(t.to_string(), r.clone());
        r
    }

    fn must_uncached(&mut self, t: &str) -> (bool, String) {
        if !self.is_target(t) {
            return (false, String::new());
        }
        if self.forced.contains(t) {
            return (true, "named on a `redo` command line".into());
        }
        let s = match self.m.seen.get(t) {
            Some(s) => s.clone(),
            None => return (true, "never built".into()),
        };
        if !s.ok {
            return (true, "failed last time".into());
        }
        if s.produced.is_some() && !self.fs.contains_key(t) {
            return (true, "its produced file was removed".into());
        }
        if s.always {
            return (true, "declared redo-always".into());
        }
        if let Some((cand, rule)) = self.world.rule_for(t) {
            if cand.do_path != s.rule_path {
                return (true, format!("its rule is now {} (was {})", cand.do_path, s.rule_path));
            }
            if rule.to_text("") != s.rule_text {
                return (true, format!("its rule {} was edited", cand.do_path));
            }
        }
        for a in &s.absent {
            if self.world.rules.contains_key(a) || self.world.files.contains_key(a) {
                return (true, format!("higher-priority rule {} now exists", a));
            }
        }
        for p in &s.ifcreate {
            if self.world.exists(p) || self.fs.contains_key(p) {
                return (true, format!("ifcreate path {} now exists", p));
            }
        }
        for (d, seen_bytes) in &s.deps {
            let cur = self.cur(d);
            if &cur != seen_bytes {
                return (true, format!("dependency {} changed", d));
            }
        }
        (false, String::new())
    }

    /// must run itself, or something below it (by record) must
    fn needs_rebuild(&mut self, d: &str, depth: usize) -> bool {
        if depth > 12 || !self.is_target(d) {
            return false;
        }
        if self.must(d).0 {
            return true;
        }
        let (deps, seq): (Vec<String>, u64) = self
            .m
            .seen
            .get(d)
            .map(|s| (s.deps.iter().map(|(x, _)| x.clone()).collect(), s.built_seq))
            .unwrap_or_default();
        // a plain dependency rebuilt since (to the same bytes) makes d uncertain too
        for x in &deps {
            if self.m.seen.get(x).map_or(false, |sx| sx.changed_seq > seq) {
                return true;
            }
        }
        deps.iter().any(|x| self.needs_rebuild(x, depth + 1))
    }

    /// Does a rebuild of `d` count as a change for its dependents whatever
    /// the bytes?  Not if its checksum decides: the last build recorded one
    /// and -- when `d` is about to be rebuilt -- the rule still calls
    /// redo-stamp, so that there is an old and a new checksum to compare.
    fn plain_target(&mut self, d: &str) -> bool {
        if !self.is_target(d) {
            return false;
        }
        let seen_csum = self.m.seen.get(d).map_or(false, |s| s.csum);
        let declared_csum = declared(self.world, d, &|_| None).map_or(false, |x| x.4);
        if self.stack.iter().any(|s| s == d) {
            return !(seen_csum && declared_csum);
        }
        if self.must(d).0 {
            !(seen_csum && declared_csum)
        } else {
            !seen_csum
        }
    }
}

/// A file the target consumed was rewritten by the user since (possibly with
/// identical bytes): its stamp changed, so redo may rebuild the target.
fn touched(world: &World, s: &Seen) -> bool {
    s.touches
        .iter()
        .any(|(p, n)| world.touch.get(p).copied().unwrap_or(0) != *n)
}

impl SeenModel {
    /// Expectation for one command.  `requested`: root-relative targets;
    /// `forced`: true for `redo` (named targets are rebuilt unconditionally).
    pub fn expect(
        &self,
        world: &World,
        fs_before: &BTreeMap<String, FileSnap>,
        requested: &[String],
        forced: bool,
    ) -> Expect {
        self.expect_opts(world, fs_before, requested, forced, false)
    }

    pub fn expect_opts(
        &self,
        world: &World,
        fs_before: &BTreeMap<String, FileSnap>,
        requested: &[String],
        forced: bool,
        pessimistic: bool,
    ) -> Expect {
        let mut cx = Ctx {
            m: self,
            world,
            fs: fs_before,
            forced: if forced {
                requested.iter().cloned().collect()
            } else {
                BTreeSet::new()
            },
            pessimistic,
            memo: BTreeMap::new(),
            eval_memo: BTreeMap::new(),
            stack: Vec::new(),
        };
        // Walk from the requested targets the way the statement describes it:
        // a target that must run asks for what its script declares now; a target
        // that need not run had every recorded dependency checked.
        let mut e = Expect::default();
        let mut visited: BTreeSet<String> = BTreeSet::new();
        let mut todo: Vec<String> = requested.to_vec();
        let mut may_roots: Vec<String> = Vec::new();
        let fs = fs_before;
        let w = world;
        let read = |p: &str| -> Option<Vec<u8>> {
            w.files
                .get(p)
                .map(|f| f.bytes.clone())
                .or_else(|| fs.get(p).map(|s| s.bytes.clone()))
        };
        while let Some(t) = todo.pop() {
            if !visited.insert(t.clone()) {
                continue;
            }
            if !cx.is_target(&t) {
                continue;
            }
            let (m, why) = cx.must(&t);
            if m {
                e.must.insert(t.clone());
                e.why.insert(t.clone(), why);
                if let Some((_, deps, _, _, _)) = declared(world, &t, &read) {
                    todo.extend(deps);
                }
                continue;
            }
            let s = match self.seen.get(&t) {
                Some(s) => s.clone(),
                None => continue,
            };
            if touched(world, &s) {
                e.may.insert(t.clone());
            }
            for (d, _) in &s.deps {
                if !cx.is_target(d) {
                    continue;
                }
                if cx.must(d).0 && cx.plain_target(d) {
                    // d will be rebuilt to the bytes t already consumed
                    // (otherwise t would be must-run): t may or may not run,
                    // and d runs only if t does
                    e.may.insert(t.clone());
                    may_roots.push(d.clone());
                } else {
                    todo.push(d.clone());
                    if self.seen.get(d).map_or(false, |sd| sd.changed_seq > s.built_seq) {
                        // d changed (perhaps back and forth) after t consumed it
                        e.may.insert(t.clone());
                    }
                }
            }
        }
        // propagate: whoever depends (by record) on a may-run plain target may run
        let mut changed = true;
        while changed {
            changed = false;
            for t in visited.clone() {
                if e.must.contains(&t) || e.may.contains(&t) || !cx.is_target(&t) {
                    continue;
                }
                if let Some(s) = self.seen.get(&t) {
                    let mut hit = false;
                    for (d, _) in &s.deps {
                        if e.may.contains(d) && cx.plain_target(d) {
                            hit = true;
                        }
                    }
                    if hit {
                        e.may.insert(t.clone());
                        changed = true;
                    }
                }
            }
        }
        // everything below a may-run target may run as well if it has a reason:
        // explore the closure (declared and recorded dependencies) to a fixpoint
        may_roots.extend(e.may.iter().cloned());
        let mut reach: BTreeSet<String> = BTreeSet::new();
        while let Some(t) = may_roots.pop() {
            if !reach.insert(t.clone()) || !cx.is_target(&t) {
                continue;
            }
            if let Some((_, deps, _, _, _)) = declared(world, &t, &read) {
                may_roots.extend(deps);
            }
            if let Some(s) = self.seen.get(&t) {
                may_roots.extend(s.deps.iter().map(|(d, _)| d.clone()));
            }
        }
        let mut changed = true;
        while changed {
            changed = false;
            for t in &reach {
                if e.must.contains(t) || e.may.contains(t) || !cx.is_target(t) {
                    continue;
                }
                let mut may = cx.must(t).0;
                if let Some(s) = self.seen.get(t) {
                    if touched(world, s) {
                        may = true;
                    }
                    for (d, _) in &s.deps {
                        if cx.is_target(d)
                            && (e.may.contains(d) || (cx.must(d).0 && !e.must.contains(d)) || e.must.contains(d))
                            && cx.plain_target(d)
                        {
                            may = true;
                        }
                        // a plain dependency rebuilt (to the same bytes) since t's
                        // last build, e.g. by an earlier forced `redo d`
                        if self.seen.get(d).map_or(false, |sd| sd.changed_seq > s.built_seq) {
                            may = true;
                        }
                    }
                }
                if may {
                    e.may.insert(t.clone());
                    changed = true;
                }
            }
        }
        e
    }

    /// A may-run target that was checked and found clean has been
    /// re-validated against its dependencies as they are now.
    pub fn revalidate(&mut self, declined: &[String]) {
        self.seq += 1;
        for t in declined {
            if let Some(s) = self.seen.get_mut(t) {
                s.built_seq = self.seq;
            }
        }
    }

    /// Update the memory from what a command actually did.
    pub fn absorb(
        &mut self,
        world: &World,
        fs_after: &BTreeMap<String, FileSnap>,
        runs: &[DoRun],
    ) {
        // a target has consumed its dependencies when its script ends
        let mut runs: Vec<&DoRun> = runs.iter().collect();
        runs.sort_by_key(|r| r.end.unwrap_or(u64::MAX));
        for r in runs {
            self.seq += 1;
            let t = &r.target;
            if r.rc != Some(0) {
                if let Some(s) = self.seen.get_mut(t) {
                    s.ok = false;
                } else {
                    self.seen.insert(
                        t.clone(),
                        Seen {
                            ok: false,
                            rule_path: String::new(),
                            rule_text: String::new(),
                            absent: Vec::new(),
                            deps: Vec::new(),
                            ifcreate: Vec::new(),
                            always: false,
                            csum: false,
                            produced: None,
                            built_seq: self.seq,
                            changed_seq: self.seq,
                            touches: Vec::new(),
                        },
                    );
                }
                continue;
            }
            let read = |p: &str| -> Option<Vec<u8>> {
                world
                    .files
                    .get(p)
                    .filter(|f| f.owner == Owner::User)
                    .map(|f| f.bytes.clone())
                    .or_else(|| fs_after.get(p).map(|s| s.bytes.clone()))
            };
            let (cand, deps, ifc, always, csum) = match declared(world, t, &read) {
                Some(x) => x,
                None => continue,
            };
            let rule = &world.rules[&cand.do_path];
            let absent: Vec<String> = candidates(t)
                .into_iter()
                .take_while(|c| c.do_path != cand.do_path)
                .map(|c| c.do_path)
                .collect();
            let dep_bytes: Vec<(String, Option<Vec<u8>>)> = deps
                .iter()
                .map(|d| {
                    let b = if let Some(r) = world.rules.get(d) {
                        Some(r.to_text("").into_bytes())
                    } else {
                        read(d).map(|b| strip_noise(&b))
                    };
                    (d.clone(), b)
                })
                .collect();
            let produced_now = fs_after.get(t).map(|s| s.bytes.clone());
            let changed_seq = match self.seen.get(t) {
                Some(p)
                    if p.ok
                        && p.csum
                        && csum
                        && p.produced.as_ref().map(|b| strip_noise(b))
                            == produced_now.as_ref().map(|b| strip_noise(b)) =>
                {
                    p.changed_seq
                }
                _ => self.seq,
            };
            self.seen.insert(
                t.clone(),
                Seen {
                    ok: true,
                    rule_path: cand.do_path.clone(),
                    rule_text: rule.to_text(""),
                    absent,
                    deps: dep_bytes,
                    ifcreate: ifc,
                    always,
                    csum,
                    produced: fs_after.get(t).map(|s| s.bytes.clone()),
                    built_seq: self.seq,
                    changed_seq,
                    touches: std::iter::once(cand.do_path.clone())
                        .chain(deps.iter().cloned())
                        .map(|p| {
                            let n = world.touch.get(&p).copied().unwrap_or(0);
                            (p, n)
                        })
                        .collect(),
                },
            );
        }
    }
}

//! C13 -- .do rule selection order and script arguments (the history part;
//! the candidate list as a pure function is exercised on generated paths only).

use super::gen::*;
use super::oracle::*;
use super::*;
use crate::dsl::*;

pub struct C13;

const NAMES: [&str; 16] = [
    "plain", "a.b", "a.b.c", "x.tar.gz", "sp ace.o", "\u{e9}t\u{e9}.c", "dots..o", "n.1.2.3", "UP.Lo.w", "z.o",
    ".hid", ".cfg.json", "end.", "rep.c.c", "bak.tar.gz.tar.gz", "o.o.o.o",
];

/// A target outside the directory that holds the state: the first command is
/// given in `pr/app/` (so that is the base and holds `.redo`), and the script
/// of `pr/app/x` asks for `../lib/<name>`, whose recorded name starts with
/// `..`.  Its candidates are those of `pr/lib/`, of `pr/` and of the root (two
/// levels above the base); rules lying in `pr/app/` (a sibling of the target's
/// directory) are decoys.
fn outside_base_case(rng: &mut Rng, seed: u64) -> Case {
    let name = rng.pick(&NAMES).to_string();
    let target = format!("pr/lib/{}", name);
    let cands = candidates(&target);
    let mut idx: Vec<usize> = (0..cands.len()).collect();
    rng.shuffle(&mut idx);
    let n_exist = rng.range(1, 3.min(idx.len() as u64)) as usize;
    let mut exist: Vec<usize> = idx[..n_exist].to_vec();
    exist.sort();
    let mk_rule = |rng: &mut Rng, c: &Candidate, ver: u32| -> Rule {
        let mut stmts = vec![Stmt::IfChange(vec![rel_to("s0", &c.do_dir)])];
        if rng.chance(1, 3) {
            stmts.insert(0, Stmt::Out { mode: OutMode::File, pad: 0 });
        }
        Rule { version: ver, stmts }
    };
    let mut rules = Vec::new();
    for (k, i) in exist.iter().enumerate() {
        rules.push((cands[*i].do_path.clone(), mk_rule(rng, &cands[*i], k as u32)));
    }
    // decoys: what the candidates would be called if `app` were an ancestor
    let decoys: Vec<String> = candidates(&format!("pr/app/{}", name))
        .into_iter()
        .filter(|c| c.do_dir == "pr/app" && c.do_path != format!("pr/app/{}.do", name))
        .map(|c| c.do_path)
        .collect();
    let mut have_decoy = false;
    for d in &decoys {
        if rng.chance(1, 2) {
            have_decoy = true;
            rules.push((
                d.clone(),
                Rule {
                    version: 90,
                    stmts: vec![Stmt::IfChange(vec!["../../s0".into()])],
                },
            ));
        }
    }
    if !have_decoy {
        rules.push((
            "pr/app/default.do".into(),
            Rule {
                version: 90,
                stmts: vec![Stmt::IfChange(vec!["../../s0".into()])],
            },
        ));
    }
    rules.push((
        "pr/app/x.do".into(),
        Rule {
            version: 0,
            stmts: vec![Stmt::IfChange(vec![format!("../lib/{}", name)])],
        },
    ));
    let mut sc = Scenario {
        family: "c13-outside-base".into(),
        dirs: vec!["pr".into(), "pr/app".into(), "pr/lib".into()],
        symlinks: Vec::new(),
        files: vec![("s0".to_string(), source_content("s0", 0)), ("zz".into(), b"z\n".to_vec())],
        rules,
        history: Vec::new(),
    };
    let build = |rng: &mut Rng, prog: &str| -> Cmd {
        let mut c = redo_cmd(rng, prog, &["x".to_string()], 3, 150);
        c.cwd = "pr/app".into();
        c
    };
    let p0 = if rng.chance(1, 2) { "redo" } else { "redo-ifchange" };
    sc.history.push(Step::Cmds(vec![build(rng, p0)]));
    let mut exist_now = exist.clone();
    let mut ver = 10;
    for _ in 0..rng.range(1, 3) {
        let chosen = exist_now[0];
        if chosen > 0 && rng.chance(1, 2) {
            let j = rng.below(chosen as u64) as usize;
            ver += 1;
            sc.history.push(Step::SetRule {
                path: cands[j].do_path.clone(),
                rule: Some(mk_rule(rng, &cands[j], ver)),
            });
            exist_now.insert(0, j);
            exist_now.sort();
        } else if exist_now.len() > 1 {
            sc.history.push(Step::SetRule {
                path: cands[chosen].do_path.clone(),
                rule: None,
            });
            exist_now.remove(0);
        } else if let Some(j) = (chosen + 1..cands.len()).find(|j| !exist_now.contains(j)) {
            ver += 1;
            sc.history.push(Step::SetRule {
                path: cands[j].do_path.clone(),
                rule: Some(mk_rule(rng, &cands[j], ver)),
            });
            exist_now.push(j);
            exist_now.sort();
        }
        sc.history.push(Step::Cmds(vec![build(rng, "redo-ifchange")]));
    }
    let mut meta = BTreeMap::new();
    meta.insert("target".into(), serde_json::json!(target));
    Case {
        property: "C13".into(),
        seed,
        scenario: sc,
        knobs: Knobs::draw(rng),
        opts: PlayOpts::default(),
        meta,
    }
}

impl Property for C13 {
    fn id(&self) -> &'static str {
        "C13"
    }
    fn runs(&self, tier: Tier) -> u64 {
        match tier {
            Tier::Quick => 3000,
            Tier::Thorough => 50000,
        }
    }
    fn rule(&self) -> &'static str {
        "four scenarios in five: targets at depth 0-3 (in a third of the deep cases the last directories do not exist yet and are \
         created by the rule) whose names have zero to three dots (also leading and trailing ones, and repeated extensions), spaces and non-ASCII letters, given \
         with redundant separators and .. detours; 1-4 candidate scripts placed at random positions of \
         the reference candidate list (name.do, default.<ext>.do longest extension first, default.do, in \
         the target's directory then each ancestor up to the project root); history: build, then add a \
         higher-priority candidate or remove the chosen one, then redo-ifchange, at -j1..3; one in five: \
         the state directory lies in pr/app/ (first command given there) and the script of pr/app/x asks for \
         ../lib/<name>, a target outside the base whose candidates lie in pr/lib/, pr/ and the root, with \
         decoy rules in pr/app/; oracle: the \
         script that runs, its working directory, $1, $2 and the directory of $3 equal the reference \
         (independent implementation), target bytes equal the from-scratch evaluator after every step \
         (so a changed choice forces a rebuild), redo-whichdo prints exactly the reference candidates up \
         to the first existing one; non-trivial = >=1 script execution; distinct = (scenario, signature)"
    }
    fn assumptions(&self) -> Vec<String> {
        vec!["candidate enumeration is compared on generated paths, not exhaustively over all byte strings (pure-function clause, DESIGN.md section 7)".into()]
    }
    fn nontrivial(&self, _case: &Case, rec: &RunRecord) -> bool {
        rec.groups
            .iter()
            .any(|g| g.events.iter().any(|e| e.text.starts_with("do-begin")))
    }
    fn generate(&self, rng: &mut Rng, seed: u64, _tier: Tier, index: u64) -> Case {
        if index % 5 == 4 {
            return outside_base_case(rng, seed);
        }
        let depth = rng.below(4) as usize;
        let dir_names = ["da", "db.x", "d c"];
        let mut dir = String::new();
        let mut dirs = Vec::new();
        for i in 0..depth {
            dir = if dir.is_empty() {
                dir_names[i].to_string()
            } else {
                format!("{}/{}", dir, dir_names[i])
            };
            dirs.push(dir.clone());
        }
        // in a third of the deep scenarios the last directories of the chain do
        // not exist yet: the rule (in an existing ancestor) creates them, and a
        // later step may put a higher-priority script into the new directory
        let n_existing = if depth > 0 && rng.chance(1, 3) {
            rng.below(depth as u64) as usize
        } else {
            depth
        };
        let all_dirs = dirs.clone();
        dirs.truncate(n_existing);
        let name = rng.pick(&NAMES).to_string();
        let target = if dir.is_empty() { name.clone() } else { format!("{}/{}", dir, name) };
        let cands = candidates(&target);
        let dir_exists = |d: &str| d.is_empty() || all_dirs[..n_existing].iter().any(|x| x == d);
        let mut files = vec![("s0".to_string(), source_content("s0", 0))];
        files.push(("zz".into(), b"z\n".to_vec()));
        // choose 1-4 candidate positions that exist initially
        let mut idx: Vec<usize> = (0..cands.len()).filter(|i| dir_exists(&cands[*i].do_dir)).collect();
        rng.shuffle(&mut idx);
        let n_exist = rng.range(1, 4.min(idx.len() as u64)) as usize;
        let mut exist: Vec<usize> = idx[..n_exist].to_vec();
        exist.sort();
        let mk_rule = |rng: &mut Rng, c: &Candidate, ver: u32| -> Rule {
            // s0 lives in the root: spell it relative to the rule's directory
            let s0 = rel_to("s0", &c.do_dir);
            let mut stmts = vec![Stmt::IfChange(vec![s0])];
            if rng.chance(1, 3) {
                stmts.insert(0, Stmt::Out { mode: OutMode::File, pad: 0 });
            }
            if n_existing < depth {
                stmts.insert(0, Stmt::MkDirs);
            }
            Rule { version: ver, stmts }
        };
        let mut rules = Vec::new();
        for (k, i) in exist.iter().enumerate() {
            rules.push((cands[*i].do_path.clone(), mk_rule(rng, &cands[*i], k as u32)));
        }
        let mut sc = Scenario {
            family: "c13".into(),
            dirs,
            symlinks: Vec::new(),
            files,
            rules,
            history: Vec::new(),
        };
        // spelling of the target on the command line
        let cwd = if n_existing > 0 && rng.chance(1, 2) {
            sc.dirs[rng.below(n_existing as u64) as usize].clone()
        } else {
            String::new()
        };
        let rel = rel_to(&target, &cwd);
        let arg = match rng.below(4) {
            0 => rel.clone(),
            1 => format!("./{}", rel),
            2 => rel.replacen('/', "//", 1),
            _ => {
                if cwd.is_empty() {
                    format!("./{}", rel)
                } else {
                    format!("../{}/{}", base_of(&cwd), rel)
                }
            }
        };
        let build = |rng: &mut Rng, prog: &str| -> Cmd {
            let mut c = redo_cmd(rng, prog, &[arg.clone()], 3, 150);
            c.cwd = cwd.clone();
            c
        };
        let which = || -> Cmd {
            let mut c = Cmd::new(&["redo-whichdo", &arg]);
            c.cwd = cwd.clone();
            c
        };
        let p0 = if rng.chance(1, 2) { "redo" } else { "redo-ifchange" };
        sc.history.push(Step::Cmds(vec![which()]));
        sc.history.push(Step::Cmds(vec![build(rng, p0)]));
        // evolve: add a higher-priority candidate, or remove the chosen one
        let nsteps = rng.range(1, 3);
        let mut exist_now = exist.clone();
        let mut ver = 10;
        for _ in 0..nsteps {
            let chosen = exist_now[0];
            if chosen > 0 && rng.chance(1, 2) {
                let j = rng.below(chosen as u64) as usize;
                ver += 1;
                sc.history.push(Step::SetRule {
                    path: cands[j].do_path.clone(),
                    rule: Some(mk_rule(rng, &cands[j], ver)),
                });
                exist_now.insert(0, j);
                exist_now.sort();
            } else if exist_now.len() > 1 {
                sc.history.push(Step::SetRule {
                    path: cands[chosen].do_path.clone(),
                    rule: None,
                });
                exist_now.remove(0);
            } else {
                // add a lower-priority one: must change nothing
                if let Some(j) = (chosen + 1..cands.len()).find(|j| !exist_now.contains(j)) {
                    ver += 1;
                    sc.history.push(Step::SetRule {
                        path: cands[j].do_path.clone(),
                        rule: Some(mk_rule(rng, &cands[j], ver)),
                    });
                    exist_now.push(j);
                    exist_now.sort();
                }
            }
            if rng.chance(1, 2) {
                sc.history.push(Step::Cmds(vec![which()]));
            }
            sc.history.push(Step::Cmds(vec![build(rng, "redo-ifchange")]));
        }
        let mut meta = BTreeMap::new();
        meta.insert("target".into(), serde_json::json!(target));
        Case {
            property: "C13".into(),
            seed,
            scenario: sc,
            knobs: Knobs::draw(rng),
            opts: PlayOpts::default(),
            meta,
        }
    }
    fn probes(&self, case: &Case, _rec: &RunRecord) -> BTreeMap<String, u64> {
        let mut m = BTreeMap::new();
        m.insert(format!("family_{}", case.scenario.family), 1);
        if case.scenario.rules.iter().any(|(_, r)| r.stmts.iter().any(|s| matches!(s, crate::dsl::Stmt::Out { mode: crate::dsl::OutMode::LinkDir(_), .. }))) {
            m.insert("target_is_symlink_to_directory".into(), 1);
        }
        m
    }
    fn check(&self, case: &Case, rec: &RunRecord, _obs: &dyn Observer) -> Vec<Violation> {
        let mut v = Vec::new();
        let target = case.meta["target"].as_str().unwrap().to_string();
        for g in &rec.groups {
            if !judgeable(g) {
                continue;
            }
            let world = &rec.world_after[g.step_idx];
            let cmd = &g.cmds[0];
            let r = &g.results[0];
            let cands = candidates(&target);
            if cmd.prog() == "redo-whichdo" {
                let first = cands.iter().position(|c| world.rules.contains_key(&c.do_path));
                let want: Vec<String> = match first {
                    Some(i) => cands[..=i].iter().map(|c| rel_to(&c.do_path, &cmd.cwd)).collect(),
                    None => cands.iter().map(|c| rel_to(&c.do_path, &cmd.cwd)).collect(),
                };
                let got: Vec<String> = r.stdout.lines().map(|s| s.to_string()).collect();
                let ok = match first {
                    Some(_) => got == want && r.status == Some(0),
                    None => got.len() >= want.len() && got[..want.len()] == want[..],
                };
                if !ok {
                    v.push(Violation {
                        kind: "whichdo-differs".into(),
                        detail: format!(
                            "redo-whichdo {:?} (cwd {:?}) printed {:?} (status {:?}); the candidates considered are {:?}",
                            cmd.argv[1], cmd.cwd, got, r.status, want
                        ),
                    });
                }
                continue;
            }
            if r.status != Some(0) {
                v.push(Violation {
                    kind: "rule-build-failed".into(),
                    detail: format!("{:?} (cwd {:?}) exited {:?}; stderr: {}", cmd.argv, cmd.cwd, r.status, c09::tail(&r.stderr, 400)),
                });
                continue;
            }
            // the script that ran, if any, is the reference choice with the reference arguments
            if let Some((want, _)) = world.rule_for(&target) {
                for run in do_runs(g).iter().filter(|x| x.target == target) {
                    let arg3_dir = join_norm(&run.cwd, &run.arg3).map(|p| dir_of(&p).to_string());
                    if run.rule != want.do_path
                        || run.cwd != want.do_dir
                        || run.arg1 != want.arg1
                        || run.arg2 != want.arg2
                        || arg3_dir.as_deref() != Some(dir_of(&target))
                    {
                        v.push(Violation {
                            kind: "wrong-rule-or-arguments".into(),
                            detail: format!(
                                "{} was built by {} in {:?} with $1={:?} $2={:?} $3={:?}; expected {} in {:?} with $1={:?} $2={:?} and $3 beside the target",
                                target, run.rule, run.cwd, run.arg1, run.arg2, run.arg3, want.do_path, want.do_dir, want.arg1, want.arg2
                            ),
                        });
                    }
                }
            }
            let mut ts = vec![target.clone()];
            if case.scenario.family == "c13-outside-base" {
                ts.push("pr/app/x".into());
            }
            v.extend(freshness(rec, g.step_idx, &ts));
        }
        v
    }
}

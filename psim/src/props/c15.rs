//! C15 -- every spelling of a path denotes the same target (the part that
//! depends on configurations and schedules; the pure path-cleaning clause is
//! not a simulation target, see DESIGN.md section 7).

use super::gen::*;
use super::oracle::*;
use super::*;
use crate::dsl::*;

pub struct C15;

pub const ROOT: &str = "/dev/shm/psimfix/r";

/// A spelling of root-relative canonical path `p` as seen from root-relative
/// directory `cwd`.  `ln` is a symlink to `d1` in the root.
fn spell(rng: &mut Rng, p: &str, cwd: &str) -> String {
    let rel = rel_to(p, cwd);
    let rel = if rel.is_empty() { ".".to_string() } else { rel };
    let via_link = |s: &str| -> Option<String> {
        // only when the path goes through d1 from the root
        if p.starts_with("d1/") {
            Some(format!("{}/ln/{}", up_to_root(cwd), &s["d1/".len()..]))
        } else {
            None
        }
    };
    match rng.below(8) {
        0 => rel,
        1 => format!("./{}", rel),
        2 => {
            // detour through a sibling directory of the root
            format!("{}/d1/../{}", up_to_root(cwd), p)
        }
        3 => rel.replacen('/', "//", 1),
        4 => format!("{}/{}", ROOT, p),
        5 => via_link(p).unwrap_or(format!(".//{}", rel)),
        6 => format!("{}//{}", ROOT, p),
        _ => format!("{}/./{}", up_to_root(cwd), p),
    }
}

fn up_to_root(cwd: &str) -> String {
    let n = cwd.split('/').filter(|s| !s.is_empty()).count();
    if n == 0 {
        ".".to_string()
    } else {
        vec![".."; n].join("/")
    }
}

impl Property for C15 {
    fn id(&self) -> &'static str {
        "C15"
    }
    fn runs(&self, tier: Tier) -> u64 {
        match tier {
            Tier::Quick => 3000,
            Tier::Thorough => 50000,
        }
    }
    fn rule(&self) -> &'static str {
        "projects with sub-directories d1, d1/d2, d3 and a symlinked directory ln -> d1; targets in \
         every directory (in every third scenario one of them is itself a symbolic link to a directory, named by 2-3 successive commands), scripts that chdir before redo-ifchange; commands issued from a random working \
         directory naming 1-3 real files by 2-4 spellings each (relative, ./, detour through .., doubled \
         slash, absolute, via the symlink) on one command line, at -j1 and -jN, in one or two successive \
         commands with different spellings; oracle: no crash, exit 0, no new state directory below the working directory, at most one script execution per \
         real file per invocation, every name recorded in the state database is the canonical \
         root-relative path (one row per real file), contents equal the from-scratch evaluator; \
         non-trivial = >=1 preemption and >=1 script; distinct = (scenario, preemption signature)"
    }
    fn assumptions(&self) -> Vec<String> {
        vec!["second sentence of C15 (lexical cleaning as a pure function, exhaustive over byte strings) is outside deterministic simulation; only the spellings generated here flow through normpath/relpath".into()]
    }
    fn generate(&self, rng: &mut Rng, seed: u64, _tier: Tier, index: u64) -> Case {
        let dirs = vec!["d1".to_string(), "d1/d2".to_string(), "d3".to_string()];
        let all_dirs = ["", "d1", "d1/d2", "d3"];
        let mut files = vec![
            ("s0".to_string(), source_content("s0", 0)),
            ("d1/s1".to_string(), source_content("s1", 0)),
        ];
        let mut rules: Vec<(String, Rule)> = Vec::new();
        let mut targets: Vec<String> = Vec::new();
        let nt = rng.range(2, 5) as usize;
        for i in 0..nt {
            let d = *rng.pick(&all_dirs);
            let name = target_name(i);
            let path = if d.is_empty() { name.clone() } else { format!("{}/{}", d, name) };
            // dependencies: sources and earlier targets, spelled relative to the rule's dir
            let mut stmts = Vec::new();
            let mut pool: Vec<String> = vec!["s0".into(), "d1/s1".into()];
            pool.extend(targets.iter().cloned());
            rng.shuffle(&mut pool);
            let deps: Vec<String> = pool.into_iter().take(rng.range(1, 2) as usize).collect();
            if rng.chance(1, 3) {
                // chdir elsewhere first, then name the deps from there
                let to = *rng.pick(&all_dirs);
                let rel_dir = rel_to(to, d);
                if !rel_dir.is_empty() {
                    stmts.push(Stmt::Chdir(rel_dir));
                    stmts.push(Stmt::IfChange(deps.iter().map(|p| {
                        let r = rel_to(p, to);
                        if rng.chance(1, 3) { format!("./{}", r) } else { r }
                    }).collect()));
                } else {
                    stmts.push(Stmt::IfChange(deps.iter().map(|p| rel_to(p, d)).collect()));
                }
            } else {
                stmts.push(Stmt::IfChange(deps.iter().map(|p| rel_to(p, d)).collect()));
            }
            if rng.chance(1, 3) {
                stmts.push(Stmt::Work(rng.range(1, 20)));
            }
            rules.push((format!("{}.do", path), Rule { version: 0, stmts }));
            targets.push(path);
        }
        // every third scenario: a target that is itself a symbolic link to a
        // directory (`ln -s d3 $3`, the "current release" idiom): every spelling
        // must name the link, not what it points to
        let link_target = if index % 3 == 2 {
            let d = *rng.pick(&all_dirs);
            let path = if d.is_empty() { "cur".to_string() } else { format!("{}/cur", d) };
            let dest = {
                let r = rel_to("d3", d);
                if r.is_empty() { ".".to_string() } else { r }
            };
            rules.push((
                format!("{}.do", path),
                Rule {
                    version: 0,
                    stmts: vec![
                        Stmt::IfChange(vec![rel_to("s0", d)]),
                        Stmt::Out { mode: OutMode::LinkDir(dest), pad: 0 },
                    ],
                },
            ));
            targets.push(path.clone());
            Some(path)
        } else {
            None
        };
        files.push(("unrelated".into(), b"x\n".to_vec()));
        let mut sc = Scenario {
            family: "c15".into(),
            dirs,
            symlinks: vec![("ln".into(), "d1".into())],
            files,
            rules,
            history: Vec::new(),
        };
        let ncmds = if link_target.is_some() { rng.range(2, 3) } else { rng.range(1, 2) };
        let mut canon: Vec<Vec<String>> = Vec::new();
        for _ in 0..ncmds {
            let cwd = rng.pick(&all_dirs).to_string();
            let mut args = Vec::new();
            let mut cs = Vec::new();
            let nreal = rng.range(1, 3);
            for k in 0..nreal {
                let t = match &link_target {
                    // the link is named by every command of its scenario
                    Some(l) if k == 0 => l.clone(),
                    _ => rng.pick(&targets).clone(),
                };
                let nsp = rng.range(1, 3);
                for _ in 0..nsp {
                    args.push(spell(rng, &t, &cwd));
                }
                cs.push(t);
            }
            if rng.chance(1, 2) {
                rng.shuffle(&mut args);
            }
            let prog = if rng.chance(1, 2) { "redo" } else { "redo-ifchange" };
            let mut c = redo_cmd(rng, prog, &args, 4, 200);
            c.cwd = cwd;
            sc.history.push(Step::Cmds(vec![c]));
            canon.push(cs);
        }
        let mut meta = BTreeMap::new();
        meta.insert("canon".into(), serde_json::json!(canon));
        Case {
            property: "C15".into(),
            seed,
            scenario: sc,
            knobs: Knobs::draw(rng),
            opts: PlayOpts::default(),
            meta,
        }
    }
    fn probes(&self, case: &Case, _rec: &RunRecord) -> BTreeMap<String, u64> {
        let mut m = BTreeMap::new();
        m.insert(format!("family_{}", case.scenario.family), 1);
        if case.scenario.rules.iter().any(|(_, r)| r.stmts.iter().any(|s| matches!(s, crate::dsl::Stmt::Out { mode: crate::dsl::OutMode::LinkDir(_), .. }))) {
            m.insert("target_is_symlink_to_directory".into(), 1);
        }
        m
    }
    fn check(&self, case: &Case, rec: &RunRecord, _obs: &dyn Observer) -> Vec<Violation> {
        let mut v = c09::liveness_violations(rec);
        let canon: Vec<Vec<String>> = serde_json::from_value(case.meta["canon"].clone()).unwrap_or_default();
        let known: std::collections::BTreeSet<String> = case
            .scenario
            .files
            .iter()
            .map(|(p, _)| p.clone())
            .chain(case.scenario.rules.iter().map(|(p, _)| p.clone()))
            .chain(case.scenario.rules.iter().map(|(p, _)| p.trim_end_matches(".do").to_string()))
            .collect();
        for (gi, g) in rec.groups.iter().enumerate() {
            if !judgeable(g) {
                continue;
            }
            let cmd = &g.cmds[0];
            if g.results[0].status != Some(0) {
                v.push(Violation {
                    kind: "spelling-failure".into(),
                    detail: format!(
                        "{:?} (cwd {:?}) exited {:?}; stderr: {}",
                        cmd.argv,
                        cmd.cwd,
                        g.results[0].status,
                        c09::tail(&g.results[0].stderr, 400)
                    ),
                });
                continue;
            }
            // one project, one state directory: a command given in directory D
            // works with the state directory of D or of an ancestor, never with a
            // new one below D (which would give the files there second records
            // and second locks)
            {
                let before: std::collections::BTreeSet<&String> = if g.step_idx == 0 {
                    Default::default()
                } else {
                    rec.fs_after[g.step_idx - 1].keys().collect()
                };
                let prefix = if cmd.cwd.is_empty() { String::new() } else { format!("{}/", cmd.cwd) };
                let newdirs: std::collections::BTreeSet<String> = rec.fs_after[g.step_idx]
                    .keys()
                    .filter(|k| !before.contains(k))
                    .filter_map(|k| k.find("/.redo/").map(|i| k[..i].to_string()))
                    .filter(|d| d.starts_with(&prefix) && *d != cmd.cwd)
                    .collect();
                if !newdirs.is_empty() {
                    v.push(Violation {
                        kind: "second-state-directory".into(),
                        detail: format!(
                            "{:?} (cwd {:?}) created a state directory below its working directory: {:?}",
                            cmd.argv, cmd.cwd, newdirs
                        ),
                    });
                }
            }
            for (t, n) in exec_counts(g) {
                // `redo` forces every named target once; dependencies once
                if n > 1 {
                    let named = canon.get(gi).map_or(false, |c| c.contains(&t));
                    let is_dep_of_named = canon.get(gi).map_or(false, |c| {
                        c.iter().any(|x| x != &t && rec.world_after[g.step_idx].closure(x).contains(&t))
                    });
                    if !(cmd.prog() == "redo" && named && is_dep_of_named && n == 2) {
                        v.push(Violation {
                            kind: "spelling-built-twice".into(),
                            detail: format!("{:?} (cwd {:?}): {} was executed {} times", cmd.argv, cmd.cwd, t, n),
                        });
                    }
                }
            }
            if let Some(c) = canon.get(gi) {
                v.extend(freshness(rec, g.step_idx, c));
            }
            if let Some(Some(db)) = rec.db_after.get(g.step_idx) {
                for name in db.files.keys() {
                    if name == "//ALWAYS" {
                        continue;
                    }
                    let bad = name.contains("//")
                        || name.starts_with("./")
                        || name.contains("/./")
                        || name.split('/').any(|c| c == ".." || c == "ln")
                        || name.starts_with('/');
                    // candidates above the project root are recorded as ../ paths by design
                    let above_root = name.starts_with("../") && name.ends_with(".do");
                    if bad && !above_root {
                        v.push(Violation {
                            kind: "non-canonical-record".into(),
                            detail: format!(
                                "{:?} (cwd {:?}): the state database has a row named {:?}, which is not the canonical spelling of a project file",
                                cmd.argv, cmd.cwd, name
                            ),
                        });
                    } else if !bad && !known.contains(name) && !name.ends_with(".do") {
                        v.push(Violation {
                            kind: "non-canonical-record".into(),
                            detail: format!(
                                "{:?} (cwd {:?}): the state database has a row {:?} that is no file of the project",
                                cmd.argv, cmd.cwd, name
                            ),
                        });
                    }
                }
            }
        }
        v
    }
}

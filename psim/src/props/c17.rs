//! C17 -- redo-ood / redo-targets / redo-sources are safe over-approximations
//! and change nothing.

use super::gen::*;
use super::oracle::*;
use super::spec::*;
use super::*;
use crate::dsl::*;
use crate::model::Owner;
use std::collections::BTreeSet;

pub struct C17;

fn is_query(c: &Cmd) -> bool {
    matches!(c.prog(), "redo-ood" | "redo-targets" | "redo-sources")
}

fn lines(s: &str) -> BTreeSet<String> {
    s.lines().filter(|l| !l.trim().is_empty()).map(|l| l.to_string()).collect()
}

/// A rebuild is killed part-way; the queries come between the kill and the
/// recovery run: what the recovery rebuilds must have been listed by redo-ood.
fn killed_case(rng: &mut Rng, seed: u64) -> Case {
    let mut p = GraphParams::small(rng);
    p.n_targets = rng.range(2, 5) as usize;
    p.n_sources = 2;
    p.csum_pm = *rng.pick(&[0, 400]);
    p.always_pm = 0;
    p.max_work_ms = *rng.pick(&[0, 5, 50]);
    let g = gen_graph(rng, &p);
    let mut sc = g.scenario("c17-killed");
    let top = g.top();
    let mut key = 1u64;
    let mut keyed = |mut c: Cmd| -> Cmd {
        key += 1;
        c.key = Some(key);
        c
    };
    let c0 = redo_cmd(rng, "redo-ifchange", &[top.clone()], 3, 100);
    sc.history.push(Step::Cmds(vec![keyed(c0)]));
    for s in &g.sources {
        if rng.chance(2, 3) || s == &g.sources[0] {
            sc.history.push(Step::Write {
                path: s.clone(),
                bytes: source_content(s, 1),
            });
        }
    }
    let killed_group = sc.history.len();
    let prog = if rng.chance(1, 2) { "redo" } else { "redo-ifchange" };
    let c1 = redo_cmd(rng, prog, &[top.clone()], 3, 100);
    sc.history.push(Step::Cmds(vec![keyed(c1)]));
    let ood_group = sc.history.len();
    sc.history.push(Step::Cmds(vec![keyed(Cmd::new(&["redo-ood"]))]));
    sc.history.push(Step::Cmds(vec![keyed(Cmd::new(&["redo-targets"]))]));
    sc.history.push(Step::Cmds(vec![keyed(Cmd::new(&["redo-sources"]))]));
    let recovery_group = sc.history.len();
    let c2 = redo_cmd(rng, "redo-ifchange", &[top], 2, 100);
    sc.history.push(Step::Cmds(vec![keyed(c2)]));
    let mut opts = PlayOpts::default();
    if rng.chance(1, 2) {
        opts.kill_cmd_at = Some((killed_group, 0, rng.range(40, 700)));
    } else {
        opts.kill_at = Some((killed_group, rng.range(5, 250), rng.chance(1, 2)));
    }
    let mut meta = BTreeMap::new();
    meta.insert("killed_group".into(), serde_json::json!(killed_group));
    meta.insert("ood_group".into(), serde_json::json!(ood_group));
    meta.insert("recovery_group".into(), serde_json::json!(recovery_group));
    Case {
        property: "C17".into(),
        seed,
        scenario: sc,
        knobs: Knobs::draw(rng),
        opts,
        meta,
    }
}

fn killed_check(case: &Case, rec: &RunRecord) -> Vec<Violation> {
    let mut v = Vec::new();
    let gi = |k: &str| case.meta.get(k).and_then(|x| x.as_u64()).unwrap_or(u64::MAX) as usize;
    let find = |i: usize| rec.groups.iter().find(|g| g.step_idx == i);
    let (kg, og, rg) = match (find(gi("killed_group")), find(gi("ood_group")), find(gi("recovery_group"))) {
        (Some(a), Some(b), Some(c)) => (a, b, c),
        _ => return v,
    };
    let fired = match &kg.kill_fired {
        Some(f) => f.clone(),
        None => return v,
    };
    if !judgeable(og) || !judgeable(rg) {
        return v;
    }
    for g in rec.groups.iter().filter(|g| is_query(&g.cmds[0])) {
        if g.results[0].status != Some(0) {
            v.push(Violation {
                kind: "query-failed".into(),
                detail: format!(
                    "history step {} {:?} after {} exited {:?}; stderr: {}",
                    g.step_idx, g.cmds[0].argv, fired, g.results[0].status, c09::tail(&g.results[0].stderr, 300)
                ),
            });
            return v;
        }
    }
    if rg.results[0].status != Some(0) {
        // recovery itself is C10's business
        return v;
    }
    // generated per the database before the killed command started
    let before = match rec.db_after[..kg.step_idx].iter().rev().flatten().next() {
        Some(d) => d,
        None => return v,
    };
    let listed = lines(&og.results[0].stdout);
    for t in exec_counts(rg).keys() {
        let was_target = before.files.get(t).map_or(false, |f| f.0);
        if was_target && !listed.contains(t) {
            v.push(Violation {
                kind: "ood-misses-dirty-target".into(),
                detail: format!(
                    "after {} (history step {}): redo-ood lists {:?}, not {}, a target generated before, which the following redo-ifchange rebuilds",
                    fired, kg.step_idx, listed, t
                ),
            });
        }
    }
    v
}

impl Property for C17 {
    fn id(&self) -> &'static str {
        "C17"
    }
    fn runs(&self, tier: Tier) -> u64 {
        match tier {
            Tier::Quick => 400,
            Tier::Thorough => 8000,
        }
    }
    fn rule(&self) -> &'static str {
        "C02-style histories (source and rule edits, target removals, hand edits of generated targets \
         followed by their removal, checksummed and always targets, failure-free builds) with redo-ood, redo-targets and redo-sources inserted at random points; \
         oracle per query: SeenModel lower bound (targets a redo-ifchange of them would rebuild) ⊆ \
         redo-ood ⊆ upper bound (must or may run if every checksummed target that needs rebuilding \
         changed), empty right after a successful full build; redo-targets ∩ redo-sources = ∅ and \
         together exactly the recorded files that exist or are generated (state database and disk \
         view); non-interference: the same history is replayed without the queries (build commands \
         keep their seeds through stable command keys) and every build command must run the same \
         scripts, exit alike and leave the same files and structural database; non-trivial = >=1 \
         query with a non-empty answer; distinct = (scenario, preemption signature)"
    }
    fn nontrivial(&self, _case: &Case, rec: &RunRecord) -> bool {
        rec.groups
            .iter()
            .any(|g| is_query(&g.cmds[0]) && !g.results[0].stdout.trim().is_empty())
    }
    fn generate(&self, rng: &mut Rng, seed: u64, _tier: Tier, index: u64) -> Case {
        if index % 5 == 4 {
            return killed_case(rng, seed);
        }
        let mut p = GraphParams::small(rng);
        p.n_targets = rng.range(3, 6) as usize;
        p.n_sources = 2;
        p.csum_pm = *rng.pick(&[0, 400, 600]);
        p.always_pm = *rng.pick(&[0, 0, 200]);
        p.max_work_ms = 0;
        let mut g = gen_graph(rng, &p);
        // one rule in a third of the scenarios watches for a path (`w0`) with
        // the ifcreate idiom; the user creates it later: a file redo knows
        // about (from the must-not-exist record) but has never stamped
        let watch = rng.chance(1, 3);
        if watch {
            let i = rng.below(g.rules.len() as u64) as usize;
            g.rules[i].1.stmts.insert(0, Stmt::IfExists("w0".into()));
        }
        let mut sc = g.scenario("c17");
        let top = g.top();
        let mut key = 1u64;
        let mut keyed = |mut c: Cmd| -> Cmd {
            key += 1;
            c.key = Some(key);
            c
        };
        let query = |rng: &mut Rng| -> Cmd {
            Cmd::new(&[*rng.pick(&["redo-ood", "redo-ood", "redo-targets", "redo-sources"])])
        };
        let c0 = redo_cmd(rng, "redo-ifchange", &[top.clone()], 3, 100);
        sc.history.push(Step::Cmds(vec![keyed(c0)]));
        sc.history.push(Step::Cmds(vec![keyed(Cmd::new(&["redo-ood"]))]));
        let mut ver = vec![0u32; g.sources.len()];
        let mut rv = 0u32;
        let mut edits = 0u32;
        let steps = rng.range(3, 8);
        for _ in 0..steps {
            let r = rng.below(100);
            if r < 30 {
                let t = if rng.chance(1, 2) { top.clone() } else { rng.pick(&g.targets).clone() };
                let prog = if rng.chance(1, 6) { "redo" } else { "redo-ifchange" };
                let c = redo_cmd(rng, prog, &[t], 3, 100);
                sc.history.push(Step::Cmds(vec![keyed(c)]));
            } else if r < 55 {
                let i = rng.below(g.sources.len() as u64) as usize;
                ver[i] += 1;
                sc.history.push(Step::Write {
                    path: g.sources[i].clone(),
                    bytes: source_content(&g.sources[i], ver[i]),
                });
            } else if r < 65 {
                let i = rng.below(g.rules.len() as u64) as usize;
                let path = g.rules[i].0.clone();
                if let Some(mut rule) = current_rule(&sc, &path) {
                    rv += 1;
                    rule.version = 50 + rv;
                    sc.history.push(Step::SetRule { path, rule: Some(rule) });
                }
            } else if r < 73 {
                sc.history.push(Step::Remove { path: rng.pick(&g.targets).clone() });
            } else if r < 80 {
                // the user edits a generated target by hand (a later build records
                // the override) and usually removes it again some steps later
                let t = rng.pick(&g.targets[..g.targets.len() - 1]).clone();
                edits += 1;
                sc.history.push(Step::Write {
                    path: t.clone(),
                    bytes: format!("edited by hand {}\n", edits).into_bytes(),
                });
                if rng.chance(1, 3) {
                    // query right after the edit, before any build has seen it
                    sc.history.push(Step::Cmds(vec![keyed(Cmd::new(&["redo-ood"]))]));
                }
                if rng.chance(2, 3) {
                    let c = redo_cmd(rng, "redo-ifchange", &[top.clone()], 2, 100);
                    sc.history.push(Step::Cmds(vec![keyed(c)]));
                    if rng.chance(1, 2) {
                        sc.history.push(Step::Cmds(vec![keyed(Cmd::new(&["redo-ood"]))]));
                    }
                    if rng.chance(1, 2) {
                        sc.history.push(Step::Remove { path: t });
                        sc.history.push(Step::Cmds(vec![keyed(Cmd::new(&["redo-ood"]))]));
                        sc.history.push(Step::Cmds(vec![keyed(Cmd::new(&["redo-targets"]))]));
                        sc.history.push(Step::Cmds(vec![keyed(Cmd::new(&["redo-sources"]))]));
                    }
                }
            } else {
                let q = query(rng);
                sc.history.push(Step::Cmds(vec![keyed(q)]));
            }
        }
        if watch {
            sc.history.push(Step::Write {
                path: "w0".into(),
                bytes: b"now it exists\n".to_vec(),
            });
            sc.history.push(Step::Cmds(vec![keyed(Cmd::new(&["redo-ood"]))]));
            sc.history.push(Step::Cmds(vec![keyed(Cmd::new(&["redo-targets"]))]));
            sc.history.push(Step::Cmds(vec![keyed(Cmd::new(&["redo-sources"]))]));
        }
        let q = query(rng);
        sc.history.push(Step::Cmds(vec![keyed(q)]));
        let c = redo_cmd(rng, "redo-ifchange", &[top.clone()], 2, 100);
        sc.history.push(Step::Cmds(vec![keyed(c)]));
        sc.history.push(Step::Cmds(vec![keyed(Cmd::new(&["redo-ood"]))]));
        sc.history.push(Step::Cmds(vec![keyed(Cmd::new(&["redo-targets"]))]));
        sc.history.push(Step::Cmds(vec![keyed(Cmd::new(&["redo-sources"]))]));
        let c = redo_cmd(rng, "redo-ifchange", &[top], 1, 100);
        sc.history.push(Step::Cmds(vec![keyed(c)]));
        Case {
            property: "C17".into(),
            seed,
            scenario: sc,
            knobs: Knobs::draw(rng),
            opts: PlayOpts::default(),
            meta: BTreeMap::new(),
        }
    }
    fn check(&self, case: &Case, rec: &RunRecord, _obs: &dyn Observer) -> Vec<Violation> {
        if case.scenario.family == "c17-killed" {
            return killed_check(case, rec);
        }
        let _case = case;
        let mut v = Vec::new();
        let mut m = SeenModel::default();
        let empty = BTreeMap::new();
        let mut full_build_ok_at: Option<usize> = None;
        let mut last_closure: BTreeSet<String> = BTreeSet::new();
        for g in &rec.groups {
            if !judgeable(g) {
                break;
            }
            let idx = g.step_idx;
            let world = &rec.world_after[idx];
            let fs_before = if idx == 0 { &empty } else { &rec.fs_after[idx - 1] };
            let cmd = &g.cmds[0];
            let r = &g.results[0];
            if is_query(cmd) {
                if r.status != Some(0) {
                    v.push(Violation {
                        kind: "query-failed".into(),
                        detail: format!("history step {} {:?} exited {:?}; stderr: {}", idx, cmd.argv, r.status, c09::tail(&r.stderr, 300)),
                    });
                    continue;
                }
                let mut wb = world.clone();
                wb.files.retain(|_, f| f.owner == Owner::User);
                let out = lines(&r.stdout);
                let db = match rec.db_after.get(idx).and_then(|d| d.as_ref()) {
                    Some(d) => d,
                    None => continue,
                };
                match cmd.prog() {
                    "redo-ood" => {
                        // known targets: generated per the database
                        let known: Vec<String> = db
                            .files
                            .iter()
                            .filter(|(n, f)| f.0 && n.as_str() != "//ALWAYS")
                            .map(|(n, _)| n.clone())
                            .collect();
                        for t in &known {
                            if wb.is_user_file(t) {
                                // a generated target the user has taken over by
                                // hand is left alone by redo-ifchange, and it is
                                // not a dependent of anything: never out of date
                                if out.contains(t) {
                                    v.push(Violation {
                                        kind: "ood-lists-clean-target".into(),
                                        detail: format!(
                                            "history step {}: redo-ood lists {}, a generated target the user has edited by hand: redo-ifchange of it runs nothing; listed: {:?}",
                                            idx, t, out
                                        ),
                                    });
                                }
                                continue;
                            }
                            let lo = m.expect(&wb, fs_before, &[t.clone()], false);
                            let hi = m.expect_opts(&wb, fs_before, &[t.clone()], false, true);
                            let listed = out.contains(t);
                            if lo.must.contains(t) && !listed && m.seen.contains_key(t) {
                                v.push(Violation {
                                    kind: "ood-misses-dirty-target".into(),
                                    detail: format!(
                                        "history step {}: redo-ood does not list {} although redo-ifchange of it would rebuild it ({}); listed: {:?}",
                                        idx, t, lo.why.get(t).cloned().unwrap_or_default(), out
                                    ),
                                });
                            }
                            if listed && !hi.must.contains(t) && !hi.may.contains(t) && !lo.may.contains(t) {
                                v.push(Violation {
                                    kind: "ood-lists-clean-target".into(),
                                    detail: format!(
                                        "history step {}: redo-ood lists {} which would not be rebuilt even if every checksummed target that needs rebuilding changed; listed: {:?}",
                                        idx, t, out
                                    ),
                                });
                            }
                        }
                        if full_build_ok_at == Some(idx.wrapping_sub(1)) && !out.is_empty() {
                            // only what the next redo-ifchange would (or may) rebuild
                            // anyway -- always-targets and their dependents -- can be
                            // out of date right after a successful full build
                            let unexplained: Vec<&String> = out
                                .iter()
                                .filter(|t| last_closure.contains(*t))
                                .filter(|t| {
                                    let e = m.expect(&wb, fs_before, &[(*t).clone()], false);
                                    let h = m.expect_opts(&wb, fs_before, &[(*t).clone()], false, true);
                                    !(e.must.contains(*t)
                                        || e.may.contains(*t)
                                        || h.must.contains(*t)
                                        || h.may.contains(*t))
                                })
                                .collect();
                            if !unexplained.is_empty() {
                                v.push(Violation {
                                    kind: "ood-nonempty-after-full-build".into(),
                                    detail: format!("history step {}: right after a successful full build redo-ood lists {:?}", idx, unexplained),
                                });
                            }
                        }
                    }
                    "redo-targets" | "redo-sources" => {}
                    _ => {}
                }
                // targets/sources partition, judged whenever both follow each other
                if cmd.prog() == "redo-sources" && idx > 0 {
                    if let Some(pg) = rec.groups.iter().find(|x| x.step_idx == idx - 1) {
                        if pg.cmds[0].prog() == "redo-targets" && pg.results[0].status == Some(0) {
                            let ts = lines(&pg.results[0].stdout);
                            let ss = out.clone();
                            let both: Vec<&String> = ts.intersection(&ss).collect();
                            if !both.is_empty() {
                                v.push(Violation {
                                    kind: "targets-sources-overlap".into(),
                                    detail: format!("history step {}: listed by both redo-targets and redo-sources: {:?}", idx, both),
                                });
                            }
                            let fs_now = &rec.fs_after[idx];
                            for (n, f) in &db.files {
                                if n == "//ALWAYS" || n.starts_with("../") {
                                    continue;
                                }
                                let exists = fs_now.contains_key(n) || world.rules.contains_key(n);
                                let generated = f.0;
                                let want = exists || generated;
                                let have = ts.contains(n) || ss.contains(n);
                                if want != have {
                                    v.push(Violation {
                                        kind: "targets-sources-cover".into(),
                                        detail: format!(
                                            "history step {}: recorded file {} (exists: {}, generated: {}) is listed by {} of redo-targets/redo-sources",
                                            idx, n, exists, generated, if have { "one" } else { "neither" }
                                        ),
                                    });
                                }
                            }
                            for n in ts.union(&ss) {
                                if !db.files.contains_key(n) {
                                    v.push(Violation {
                                        kind: "targets-sources-cover".into(),
                                        detail: format!("history step {}: {} is listed but not a recorded file", idx, n),
                                    });
                                }
                            }
                        }
                    }
                }
                continue;
            }
            // build command: follow it with the model
            let req: Vec<String> = cmd.targets().iter().filter_map(|a| arg_path(&cmd.cwd, a)).collect();
            let mut wb = world.clone();
            wb.files.retain(|_, f| f.owner == Owner::User);
            let e = m.expect(&wb, fs_before, &req, cmd.prog() == "redo");
            m.absorb(world, &rec.fs_after[idx], &do_runs(g));
            let ran = exec_counts(g);
            let declined: Vec<String> = e.may.iter().filter(|t| !ran.contains_key(*t)).cloned().collect();
            if r.status == Some(0) {
                m.revalidate(&declined);
                full_build_ok_at = Some(idx);
                last_closure.clear();
                for t in &req {
                    last_closure.extend(wb.closure(t));
                }
            } else {
                full_build_ok_at = None;
            }
        }
        v
    }
    fn reference(&self, case: &Case) -> Option<(Scenario, Knobs, PlayOpts)> {
        let mut sc = case.scenario.clone();
        sc.history.retain(|s| match s {
            Step::Cmds(v) => !is_query(&v[0]),
            _ => true,
        });
        // (the queries of the killed-build family come after the killed group, so
        // its index and the kill plan stay valid)
        let opts = if case.scenario.family == "c17-killed" { case.opts.clone() } else { PlayOpts::default() };
        Some((sc, case.knobs.clone(), opts))
    }
    fn check_with_reference(&self, _case: &Case, rec: &RunRecord, re: &RunRecord) -> Vec<Violation> {
        let mut v = Vec::new();
        let a: Vec<&GroupRec> = rec.groups.iter().filter(|g| !is_query(&g.cmds[0])).collect();
        let b: Vec<&GroupRec> = re.groups.iter().collect();
        if a.iter().any(|g| !judgeable(g)) || b.iter().any(|g| !judgeable(g)) {
            return v;
        }
        for (ga, gb) in a.iter().zip(b.iter()) {
            let ra: BTreeSet<String> = exec_counts(ga).keys().cloned().collect();
            let rb: BTreeSet<String> = exec_counts(gb).keys().cloned().collect();
            if ra != rb || ga.results[0].status != gb.results[0].status {
                v.push(Violation {
                    kind: "query-changed-later-build".into(),
                    detail: format!(
                        "{:?} (history step {}): with the query commands in the history it ran {:?} and exited {:?}; without them {:?} and {:?}",
                        ga.cmds[0].argv, ga.step_idx, ra, ga.results[0].status, rb, gb.results[0].status
                    ),
                });
                return v;
            }
        }
        let fa = rec.fs_after.last().unwrap();
        let fb = re.fs_after.last().unwrap();
        for n in fa.keys().chain(fb.keys()) {
            let x = fa.get(n).map(|s| strip_noise(&s.bytes));
            let y = fb.get(n).map(|s| strip_noise(&s.bytes));
            if x != y {
                v.push(Violation {
                    kind: "query-changed-later-build".into(),
                    detail: format!("file {} differs at the end of the history with and without the query commands", n),
                });
                return v;
            }
        }
        let da = rec.db_after.iter().rev().flatten().next();
        let db = re.db_after.iter().rev().flatten().next();
        if let (Some(da), Some(db)) = (da, db) {
            if da.files != db.files || da.deps != db.deps {
                v.push(Violation {
                    kind: "query-changed-later-build".into(),
                    detail: format!(
                        "structural database view differs at the end with and without the query commands: edges only with queries {:?}, only without {:?}",
                        da.deps.difference(&db.deps).take(4).collect::<Vec<_>>(),
                        db.deps.difference(&da.deps).take(4).collect::<Vec<_>>()
                    ),
                });
            }
        }
        v
    }
    fn probes(&self, _case: &Case, rec: &RunRecord) -> BTreeMap<String, u64> {
        let mut m = BTreeMap::new();
        for g in &rec.groups {
            if is_query(&g.cmds[0]) {
                *m.entry(format!("{}_runs", g.cmds[0].prog())).or_insert(0) += 1;
                *m.entry(format!("{}_lines", g.cmds[0].prog())).or_insert(0) +=
                    g.results[0].stdout.lines().count() as u64;
            }
        }
        m
    }
}

//! C06 -- at most one .do runs for a given target at any time; results are
//! recorded before the lock is released.

use super::gen::*;
use super::oracle::*;
use crate::dsl::*;
use super::*;
use crate::sim::{Class, EvKind};

pub struct C06;

/// Overlap check over all script executions of one group.
pub fn overlaps(g: &GroupRec) -> Vec<Violation> {
    let mut v = Vec::new();
    let runs = do_runs(g);
    // redo processes killed alone by the simulator, with the step of the kill
    let killed: BTreeMap<&str, u64> = g
        .events
        .iter()
        .filter(|e| matches!(e.kind, EvKind::Fault) && e.text.starts_with("kill-proc"))
        .map(|e| (e.lid.as_str(), e.step))
        .collect();
    let mut by_t: BTreeMap<&str, Vec<&DoRun>> = BTreeMap::new();
    for r in &runs {
        by_t.entry(r.target.as_str()).or_default().push(r);
    }
    for (t, mut rs) in by_t {
        rs.sort_by_key(|r| r.begin);
        for w in rs.windows(2) {
            let end = w[0].end.unwrap_or(u64::MAX);
            if w[1].begin < end {
                // Was one of the two scripts orphaned: its builder (the redo
                // process that forked it and owns the target's fcntl lock)
                // SIGKILLed alone by the simulator before the other script
                // began?  The kernel drops the dead builder's lock while its
                // child keeps running (known finding C06-orphan-of-killed-builder).
                let orphan = w.iter().find_map(|r| {
                    let p = lock_holder(g, &r.lid)?;
                    let k = killed.get(p)?;
                    if *k <= w[1].begin {
                        Some(format!("orphan-of-killed-builder:{} (builder {} killed at step {})", r.lid, p, k))
                    } else {
                        None
                    }
                });
                match orphan {
                    Some(o) => v.push(Violation {
                        kind: "overlap-orphan-of-killed-builder".into(),
                        detail: format!(
                            "group {}: [{}] two executions of the .do of {} overlap: {} runs steps {}..{:?}, {} starts at step {}",
                            g.step_idx, o, t, w[0].lid, w[0].begin, w[0].end, w[1].lid, w[1].begin
                        ),
                    }),
                    None => v.push(Violation {
                        kind: "overlap".into(),
                        detail: format!(
                            "group {}: two executions of the .do of {} overlap: {} runs steps {}..{:?}, {} starts at step {}",
                            g.step_idx, t, w[0].lid, w[0].begin, w[0].end, w[1].lid, w[1].begin
                        ),
                    }),
                }
            }
        }
    }
    v
}

/// For every forked job (child lid) the byte of .redo/locks its parent redo
/// process took for it, inferred from the parent's own fcntl and fork calls.
pub fn job_lock_bytes(g: &GroupRec) -> BTreeMap<String, String> {
    let mut job_fid: BTreeMap<String, String> = BTreeMap::new();
    // per redo process: which lock byte belongs to which forked job
    {
        let mut held: BTreeMap<&str, Vec<String>> = BTreeMap::new();
        let mut nchild: BTreeMap<&str, u32> = BTreeMap::new();
        let mut assigned: std::collections::BTreeSet<(String, String)> = Default::default();
        for e in &g.events {
            let lid = e.lid.as_str();
            match &e.kind {
                EvKind::Op(Class::Lock) => {
                    let w: Vec<&str> = e.text.split(' ').collect();
                    if w.len() >= 5 && w[1] == ".redo/locks" {
                        let h = held.entry(lid).or_default();
                        if w[2] == "wr" {
                            h.push(w[3].to_string());
                        } else if w[2] == "un" {
                            h.retain(|f| f != w[3]);
                        }
                    }
                }
                EvKind::Info if e.text.starts_with("lockbusy .redo/locks ") => {
                    let f = e.text.rsplit(' ').next().unwrap_or("");
                    if let Some(h) = held.get_mut(lid) {
                        if let Some(pos) = h.iter().rposition(|x| x == f) {
                            h.remove(pos);
                        }
                    }
                }
                EvKind::Op(Class::Proc)
                    if e.text == "fork" || e.text.starts_with("spawn ") =>
                {
                    let n = nchild.entry(lid).or_insert(0);
                    let child = format!("{}.{}", lid, *n);
                    *n += 1;
                    if let Some(h) = held.get(lid) {
                        if let Some(f) = h
                            .iter()
                            .rev()
                            .find(|f| !assigned.contains(&(lid.to_string(), (*f).clone())))
                        {
                            assigned.insert((lid.to_string(), f.clone()));
                            job_fid.insert(child, f.clone());
                        }
                    }
                }
                _ => {}
            }
        }
    }
    job_fid
}

/// The redo process that owns the target lock under which the script `lid`
/// runs: its parent, or -- when that parent is the second, lock-free
/// `redo-ifchange` of a `redo-unlocked` helper -- the builder that started the
/// helper while keeping the target's lock.
pub fn lock_holder<'a>(g: &GroupRec, lid: &'a str) -> Option<&'a str> {
    let p = parent_lid(lid)?;
    if let Some(pp) = parent_lid(p) {
        let pp_is_unlocked = g.procs.iter().any(|q| q.lid == pp && q.name == "redo-unlocked");
        if pp_is_unlocked && p.ends_with(".1") {
            return parent_lid(pp);
        }
    }
    Some(p)
}

pub fn parent_lid(lid: &str) -> Option<&str> {
    lid.rfind('.').map(|i| &lid[..i])
}

/// For every script execution: the building redo process must not unlock the
/// target's byte of .redo/locks before it has reaped the script and written
/// the result to the database.
pub fn unlock_order(g: &GroupRec) -> Vec<Violation> {
    let mut v = Vec::new();
    let job_fid = job_lock_bytes(g);
    for r in do_runs(g) {
        let p = match parent_lid(&r.lid) {
            Some(p) => p,
            None => continue,
        };
        let fid = match job_fid.get(&r.lid) {
            Some(f) => f.clone(),
            None => continue,
        };
        let mut waited = false;
        let mut wrote = false;
        for e in g.events.iter().filter(|e| e.lid == p && e.step >= r.begin) {
            match &e.kind {
                EvKind::Info if e.text.starts_with("waited ") && e.text.contains(&format!(" {} ", r.lid)) => {
                    waited = true;
                }
                EvKind::Op(Class::Fsw)
                    if waited && e.text.contains(".redo/db.sqlite3") && e.text.starts_with("write") =>
                {
                    wrote = true;
                }
                EvKind::Op(Class::Lock) => {
                    let w: Vec<&str> = e.text.split(' ').collect();
                    if w.len() >= 5 && w[1] == ".redo/locks" && w[2] == "un" && w[3] == fid {
                        if !waited || !wrote {
                            v.push(Violation {
                                kind: "unlock-before-record".into(),
                                detail: format!(
                                    "group {}: {} released the lock of {} (byte {}) at step {} {} (script {} began at step {})",
                                    g.step_idx,
                                    p,
                                    r.target,
                                    fid,
                                    e.step,
                                    if !waited {
                                        "while its script had not been reaped"
                                    } else {
                                        "before writing the result to the state database"
                                    },
                                    r.lid,
                                    r.begin
                                ),
                            });
                        }
                        break;
                    }
                }
                _ => {}
            }
        }
    }
    v
}

/// An invocation that ends with an *internal* error while its jobs are still
/// running: one of the names on its command line lies below a regular file
/// (`s0/x`: stat fails with ENOTDIR, which is not a failed build script), the
/// others are slow targets.  A second invocation asks for the same slow
/// targets a little later.
fn error_exit_case(rng: &mut Rng, seed: u64) -> Case {
    slow_pair_case(rng, seed, true)
}

/// The same shape without the error: two invocations that want the same slow
/// targets, and the process group of one of them is killed while jobs run.
fn group_kill_case(rng: &mut Rng, seed: u64) -> Case {
    let mut c = slow_pair_case(rng, seed, false);
    c.scenario.family = "c06-group-kill".into();
    let gi = c.scenario.history.len() - 1;
    // an abort at a drawn moment (^C, timeout(1), a CI cancel): usually while
    // the first command waits for its scripts
    c.opts.kill_cmd_at = Some((gi, 0, rng.range(60, 700)));
    c
}

/// `redo ... 2>&1 | head`: the reader of the first invocation's output goes
/// away while its jobs run; what it writes afterwards meets a closed pipe.
fn reader_gone_case(rng: &mut Rng, seed: u64) -> Case {
    let mut c = slow_pair_case(rng, seed, false);
    c.scenario.family = "c06-reader-gone".into();
    let at = rng.range(40, 600);
    if let Some(Step::Cmds(cmds)) = c.scenario.history.last_mut() {
        cmds[0].reader_gone_at = Some(at);
        // a wider first command keeps writing "redo  <target>" lines
        if cmds[0].argv[0] == "redo" && rng.chance(1, 2) && !cmds[0].argv.iter().any(|a| a == "--no-log") {
            cmds[0].argv.insert(1, "--no-log".into());
        }
    }
    c
}

fn slow_pair_case(rng: &mut Rng, seed: u64, with_error: bool) -> Case {
    let n = rng.range(1, 3) as usize;
    let mut rules: Vec<(String, Rule)> = Vec::new();
    let mut names = Vec::new();
    for i in 0..n {
        rules.push((
            format!("w{}.do", i),
            Rule {
                version: 0,
                stmts: vec![Stmt::IfChange(vec!["s0".into()]), Stmt::Work(rng.range(20, 300))],
            },
        ));
        names.push(format!("w{}", i));
    }
    let mut sc = Scenario {
        family: "c06-error-exit".into(),
        files: vec![("s0".into(), source_content("s0", 0))],
        rules,
        ..Default::default()
    };
    if rng.chance(1, 2) {
        // the state directory exists already
        sc.history
            .push(Step::Cmds(vec![redo_cmd(rng, "redo-ifchange", &["s0".to_string()], 1, 0)]));
    }
    let mut ts = names.clone();
    let at = rng.range(if n > 1 { 1 } else { 1 }, ts.len() as u64) as usize;
    if with_error {
        ts.insert(at, "s0/x".into());
    }
    let prog = if rng.chance(1, 2) { "redo" } else { "redo-ifchange" };
    let mut a = redo_cmd(rng, prog, &ts, 1, 200);
    a.argv.retain(|x| !x.starts_with("-j"));
    if prog == "redo" {
        a.argv.insert(1, format!("-j{}", rng.range(2, 4)));
    } else {
        a.make_tokens = Some(rng.range(2, 4) as u32);
    }
    let mut cmds = vec![a];
    for _ in 0..rng.range(1, 2) {
        let t = rng.pick(&names).clone();
        let prog = if rng.chance(1, 2) { "redo" } else { "redo-ifchange" };
        let mut c = redo_cmd(rng, prog, &[t], 2, 200);
        c.start_step = rng.range(100, 900);
        cmds.push(c);
    }
    sc.history.push(Step::Cmds(cmds));
    Case {
        property: "C06".into(),
        seed,
        scenario: sc,
        knobs: Knobs::draw(rng),
        opts: PlayOpts {
            record_events: true,
            ..Default::default()
        },
        meta: BTreeMap::new(),
    }
}

impl Property for C06 {
    fn id(&self) -> &'static str {
        "C06"
    }
    fn runs(&self, tier: Tier) -> u64 {
        match tier {
            Tier::Quick => 1500,
            Tier::Thorough => 30000,
        }
    }
    fn rule(&self) -> &'static str {
        "2-4 top-level redo/redo-ifchange commands (each -j1..4) started together or at a drawn later \
         step on overlapping targets of random graphs -- on a fresh project or, in half of the runs, as a \
         rebuild after a complete build and source edits (checksummed targets, out-of-band re-checks) --, \
         optionally with one redo process, or the process group of one command, killed mid-build; every eighth scenario: an invocation that \
         ends with an internal error (a name below a regular file) while its jobs run, and a later one \
         asking for the same targets; every eighth: the same two invocations without the error, the \
         process group of one of them killed while its jobs run; every eighth: the reader of the first \
         invocation's output pipe goes away while its jobs run (`redo ... | head`); \
         oracle: do-begin..do-end/death intervals of one target never overlap across all processes, and \
         the builder's unlock of the target's lock byte comes after it reaped the script and wrote to the \
         state database; non-trivial = >=1 preemption and >=1 script; distinct = (scenario, preemption \
         signature)"
    }
    fn generate(&self, rng: &mut Rng, seed: u64, _tier: Tier, index: u64) -> Case {
        if index % 8 == 7 {
            return error_exit_case(rng, seed);
        }
        if index % 8 == 3 {
            return group_kill_case(rng, seed);
        }
        if index % 8 == 5 {
            return reader_gone_case(rng, seed);
        }
        let mut p = GraphParams::small(rng);
        p.n_targets = rng.range(2, 6) as usize;
        p.max_work_ms = *rng.pick(&[5, 50, 200]);
        // half of the scenarios contend for a *re*build: everything was built
        // before and an input changed, so that the commands go through the
        // recorded-dependency paths (maybe-dirty targets below checksummed
        // ones are re-checked out of band by redo-unlocked)
        let rebuild = rng.chance(1, 2);
        if rebuild {
            p.csum_pm = *rng.pick(&[300, 600]);
        }
        let mut g = gen_graph(rng, &p);
        let nfail = if rng.chance(1, 4) { 1 } else { 0 };
        let flags = add_fail_flags(rng, &mut g, nfail);
        let mut sc = g.scenario("c06");
        if !flags.is_empty() && rng.chance(1, 2) {
            sc.files.retain(|(p, _)| p != &flags[0].0);
            sc.files.push((flags[0].0.clone(), b"1\n".to_vec()));
        }
        if rebuild {
            sc.history
                .push(Step::Cmds(vec![redo_cmd(rng, "redo-ifchange", &[g.top()], 3, 0)]));
            let mut srcs = g.sources.clone();
            rng.shuffle(&mut srcs);
            let k = rng.range(1, srcs.len() as u64) as usize;
            for s in srcs.into_iter().take(k) {
                sc.history.push(Step::Write {
                    path: s.clone(),
                    bytes: source_content(&s, 1),
                });
            }
        } else if rng.chance(1, 3) {
            // state directory already exists
            sc.history.push(Step::Cmds(vec![redo_cmd(
                rng,
                "redo-ifchange",
                &[g.targets[0].clone()],
                2,
                0,
            )]));
        }
        let n = rng.range(2, 4);
        let mut cmds = Vec::new();
        for k in 0..n {
            let t = if rng.chance(1, 2) {
                g.top()
            } else {
                rng.pick(&g.targets).clone()
            };
            let prog = if rng.chance(1, 2) { "redo" } else { "redo-ifchange" };
            let mut c = redo_cmd(rng, prog, &[t], 4, 200);
            if k > 0 && rng.chance(1, 3) {
                c.start_step = rng.range(50, 1500);
            }
            cmds.push(c);
        }
        sc.history.push(Step::Cmds(cmds));
        let mut opts = PlayOpts {
            record_events: true,
            ..Default::default()
        };
        if rng.chance(1, 5) {
            let gi = sc.history.len() - 1;
            // one process alone, or (one time in three) the process group of
            // its command, which is what ^C or timeout(1) signal
            let group = rng.chance(1, 3);
            opts.kill_at = Some((gi, rng.range(20, 600), group));
        }
        Case {
            property: "C06".into(),
            seed,
            scenario: sc,
            knobs: Knobs::draw(rng),
            opts,
            meta: BTreeMap::new(),
        }
    }
    fn check(&self, _case: &Case, rec: &RunRecord, _obs: &dyn Observer) -> Vec<Violation> {
        let mut v = Vec::new();
        for g in &rec.groups {
            v.extend(overlaps(g));
            v.extend(unlock_order(g));
        }
        v
    }
    fn probes(&self, _case: &Case, rec: &RunRecord) -> BTreeMap<String, u64> {
        let mut m = BTreeMap::new();
        for g in &rec.groups {
            let busy = g
                .events
                .iter()
                .filter(|e| matches!(e.kind, EvKind::Info) && e.text.starts_with("lockbusy .redo/locks"))
                .count() as u64;
            *m.entry("target_lock_contended".to_string()).or_insert(0) += busy;
            let lw = g
                .events
                .iter()
                .filter(|e| e.text.starts_with("setlkw .redo/locks"))
                .count() as u64;
            *m.entry("lock_wait_entered".to_string()).or_insert(0) += lw;
            if let Some(k) = &g.kill_fired {
                *m.entry("redo_killed_mid_build".to_string()).or_insert(0) += 1;
                if k.starts_with("kill-tree") {
                    *m.entry("process_group_killed_mid_build".to_string()).or_insert(0) += 1;
                }
            }
            if g.fault_counts.get("output-reader-gone").copied().unwrap_or(0) > 0 {
                *m.entry("output_reader_gone".to_string()).or_insert(0) += 1;
            }
            if g.results.iter().any(|r| r.stderr.contains("Not a directory")) {
                *m.entry("internal_error_exit".to_string()).or_insert(0) += 1;
            }
            let multi = exec_counts(g).values().filter(|n| **n > 1).count() as u64;
            *m.entry("target_built_by_two_invocations".to_string()).or_insert(0) += multi;
        }
        m
    }
}

//! psim-check: driver of the deterministic-simulation checks for redo-rs.
//!
//!   psim-check <ID> [--tier quick|thorough] [--runs N] [--jobs N] [--replay FILE]
//!   psim-check selftest-determinism
//!   psim-check --worker <scratch>        (internal)
//!
//! Exit codes: 0 property held on everything explored, 1 violation (with a
//! `VIOLATION property=<id> replay=<path>` line), 2 harness error.

#![allow(dead_code)]
mod driver;
mod dsl;
mod model;
mod pool;
mod props;
mod rng;
mod sim;

use props::*;
use std::collections::{BTreeMap, BTreeSet};
use std::path::{Path, PathBuf};
use std::time::Instant;

pub fn verif_dir() -> PathBuf {
    std::env::var("PSIM_VERIF")
        .map(PathBuf::from)
        .unwrap_or_else(|_| PathBuf::from("/verif"))
}

pub fn repo_dir() -> PathBuf {
    std::env::var("PSIM_REPO")
        .map(PathBuf::from)
        .unwrap_or_else(|_| PathBuf::from("/repo"))
}

fn target_dir() -> PathBuf {
    verif_dir().join("target")
}

fn harness_error(msg: &str) -> ! {
    eprintln!("HARNESS-ERROR: {}", msg);
    println!("HARNESS-ERROR: {}", msg);
    std::process::exit(2);
}

/// Build the system under test from the repository's working tree and lay out
/// a bin directory with the redo binary and its ten personality links.
fn build_sut() -> PathBuf {
    // PSIM_SUT_BIN=<redo binary>: use a binary already built from a scratch
    // tree (seeded-change trials); only honoured together with PSIM_REPO so
    // that registered checks always rebuild /repo's working tree.
    if let Ok(b) = std::env::var("PSIM_SUT_BIN") {
        if repo_dir() != Path::new("/repo") {
            let tag = match std::env::var("PSIM_SUT_TAG") {
                Ok(t) => format!("sut-{}bin", t),
                Err(_) => format!("sut-{:x}bin", rng::hash_str(&b)),
            };
            return install_sut(Path::new(&b), &target_dir().join(tag));
        }
    }
    let repo = repo_dir();
    let tag = if repo == Path::new("/repo") {
        "sut".to_string()
    } else if let Ok(t) = std::env::var("PSIM_SUT_TAG") {
        // scratch trees: the caller names (and later removes) the build directory
        format!("sut-{}", t)
    } else {
        format!("sut-{:x}", rng::hash_str(repo.to_str().unwrap()))
    };
    let tdir = target_dir().join(&tag);
    std::fs::create_dir_all(&tdir).ok();
    // serialise builds of the same tree
    let lock = std::fs::File::create(tdir.join(".psim-build.lock")).expect("lock file");
    unsafe {
        use std::os::unix::io::AsRawFd;
        libc::flock(lock.as_raw_fd(), libc::LOCK_EX);
    }
    let out = std::process::Command::new("cargo")
        .arg("build")
        .arg("--offline")
        .arg("--bin")
        .arg("redo")
        .arg("--manifest-path")
        .arg(repo.join("Cargo.toml"))
        .env("CARGO_TARGET_DIR", &tdir)
        .env("CARGO_NET_OFFLINE", "true")
        .output()
        .unwrap_or_else(|e| harness_error(&format!("cannot run cargo: {}", e)));
    if !out.status.success() {
        harness_error(&format!(
            "building {} failed:\n{}",
            repo.display(),
            String::from_utf8_lossy(&out.stderr)
        ));
    }
    let bin = tdir.join("debug").join("redo");
    let sutbin = target_dir().join(format!("{}bin", tag));
    install_sut(&bin, &sutbin)
}

fn install_sut(bin: &Path, sutbin: &Path) -> PathBuf {
    let sutbin = sutbin.to_path_buf();
    std::fs::create_dir_all(&sutbin).ok();
    let dst = sutbin.join("redo");
    let need_copy = match (std::fs::metadata(&bin), std::fs::metadata(&dst)) {
        (Ok(a), Ok(b)) => a.modified().ok() > b.modified().ok() || a.len() != b.len(),
        _ => true,
    };
    if need_copy {
        let tmp = sutbin.join("redo.new");
        std::fs::copy(&bin, &tmp).unwrap_or_else(|e| harness_error(&format!("copy redo: {}", e)));
        std::fs::rename(&tmp, &dst).ok();
    }
    for n in [
        "redo-always",
        "redo-ifchange",
        "redo-ifcreate",
        "redo-log",
        "redo-ood",
        "redo-sources",
        "redo-stamp",
        "redo-targets",
        "redo-unlocked",
        "redo-whichdo",
    ] {
        let l = sutbin.join(n);
        if std::fs::symlink_metadata(&l).is_err() {
            let _ = std::os::unix::fs::symlink("redo", &l);
        }
    }
    sutbin
}

fn arg_value(args: &[String], name: &str) -> Option<String> {
    args.iter()
        .position(|a| a == name)
        .and_then(|i| args.get(i + 1).cloned())
}

#[derive(serde::Serialize, serde::Deserialize, Clone, Debug)]
struct KnownFinding {
    status: String,
    property: String,
    id: String,
    kind: String,
    #[serde(default)]
    contains: Vec<String>,
    description: String,
    #[serde(default)]
    commit: Option<String>,
}

fn load_findings(prop: &str) -> Vec<KnownFinding> {
    let p = verif_dir().join("known_findings.txt");
    let mut v = Vec::new();
    if let Ok(s) = std::fs::read_to_string(p) {
        for line in s.lines() {
            if line.trim().is_empty() {
                continue;
            }
            if let Ok(k) = serde_json::from_str::<KnownFinding>(line) {
                if k.property == prop && k.status == "known" {
                    v.push(k);
                }
            }
        }
    }
    v
}

fn match_finding<'a>(fs: &'a [KnownFinding], v: &Violation) -> Option<&'a KnownFinding> {
    fs.iter()
        .find(|f| f.kind == v.kind && f.contains.iter().all(|c| v.detail.contains(c.as_str())))
}

#[derive(serde::Serialize, serde::Deserialize)]
struct ReplayFile {
    property: String,
    violation: Violation,
    verif_seed: u64,
    run_index: u64,
    expected_hash: String,
    case: Case,
}

fn main() {
    let args: Vec<String> = std::env::args().collect();
    if args.len() >= 3 && args[1] == "--worker" {
        pool::worker_main(&args[2]);
        return;
    }
    if args.len() < 2 {
        eprintln!("usage: psim-check <ID> [--tier quick|thorough] [--replay FILE]");
        std::process::exit(2);
    }
    let id = args[1].clone();
    let tier = match arg_value(&args, "--tier")
        .or_else(|| std::env::var("VERIF_TIER").ok())
        .as_deref()
    {
        Some("thorough") => Tier::Thorough,
        _ => Tier::Quick,
    };
    let seed: u64 = arg_value(&args, "--seed")
        .or_else(|| std::env::var("VERIF_SEED").ok())
        .and_then(|s| s.parse().ok())
        .unwrap_or(20260929);
    let jobs: usize = arg_value(&args, "--jobs")
        .and_then(|s| s.parse().ok())
        .unwrap_or_else(|| {
            std::thread::available_parallelism()
                .map(|n| n.get())
                .unwrap_or(8)
                .min(16)
        });
    let sutbin = build_sut();
    let mut pool = pool::Pool::start(jobs, &sutbin)
        .unwrap_or_else(|e| harness_error(&format!("cannot start workers: {}", e)));

    if id == "selftest-determinism" {
        let code = selftest_determinism(&mut pool, seed, &args);
        pool.stop();
        std::process::exit(code);
    }

    let prop = match props::find(&id) {
        Some(p) => p,
        None => harness_error(&format!("unknown property {}", id)),
    };

    if let Some(f) = arg_value(&args, "--replay") {
        let code = replay(&mut pool, &f);
        pool.stop();
        std::process::exit(code);
    }

    let runs: u64 = arg_value(&args, "--runs")
        .and_then(|s| s.parse().ok())
        .unwrap_or_else(|| prop.runs(tier));
    let code = run_check(&mut pool, prop.as_ref(), tier, seed, runs, &args);
    pool.stop();
    std::process::exit(code);
}

fn tier_name(t: Tier) -> &'static str {
    match t {
        Tier::Quick => "quick",
        Tier::Thorough => "thorough",
    }
}

fn run_check(
    pool: &mut pool::Pool,
    prop: &dyn Property,
    tier: Tier,
    seed: u64,
    runs: u64,
    args: &[String],
) -> i32 {
    let t0 = Instant::now();
    let id = prop.id();
    let only: Option<u64> = arg_value(args, "--one").and_then(|s| s.parse().ok());
    let verbose = args.iter().any(|a| a == "--verbose");
    let findings = load_findings(id);
    let mut jobs_list = Vec::new();
    for i in 0..runs {
        if let Some(o) = only {
            if o != i {
                continue;
            }
        }
        jobs_list.push(pool::Job::Gen {
            prop: id.to_string(),
            seed: rng::mix(&[seed, i]),
            index: i,
            tier: tier_name(tier).to_string(),
            want_case: i < 3 || only.is_some(),
            base: seed,
        });
    }
    let wall_cap = match tier {
        Tier::Quick => 170.0,
        Tier::Thorough => 3300.0,
    };
    let results = pool.run_all(jobs_list, wall_cap);
    let mut evaluations = 0u64;
    let mut sigs: BTreeSet<u64> = BTreeSet::new();
    let mut steps = 0u64;
    let mut sim_ns = 0u64;
    let mut faults: BTreeMap<String, u64> = BTreeMap::new();
    let mut yields: BTreeMap<String, u64> = BTreeMap::new();
    let mut probes: BTreeMap<String, u64> = BTreeMap::new();
    let mut samples: Vec<serde_json::Value> = Vec::new();
    let mut harness: Vec<String> = Vec::new();
    let mut unknown: Vec<(pool::RunResult, Violation)> = Vec::new();
    let mut known_hits: BTreeMap<String, u64> = BTreeMap::new();
    let mut total_violations = 0u64;
    let mut kinds: BTreeMap<String, u64> = BTreeMap::new();
    let mut known_examples: BTreeSet<String> = BTreeSet::new();
    let mut hashes: BTreeMap<u64, u64> = BTreeMap::new();
    for r in &results {
        if let Some(e) = &r.harness_error {
            harness.push(format!("run {}: {}", r.index, e));
            continue;
        }
        evaluations += 1 + r.sub_runs;
        hashes.insert(r.index, r.hash);
        if r.nontrivial {
            sigs.insert(r.signature);
        }
        steps += r.steps;
        sim_ns += r.sim_ns;
        for (k, v) in &r.faults {
            *faults.entry(k.clone()).or_insert(0) += v;
        }
        for (k, v) in &r.yields {
            *yields.entry(k.clone()).or_insert(0) += v;
        }
        for (k, v) in &r.probes {
            *probes.entry(k.clone()).or_insert(0) += v;
        }
        if samples.len() < 3 {
            if let Some(c) = &r.case {
                samples.push(serde_json::json!({
                    "run_index": r.index,
                    "scenario_history": c.scenario.history,
                    "rules": c.scenario.rules.iter().map(|(p, r)| (p.clone(), r.to_text("simdo"))).collect::<Vec<_>>(),
                    "knobs": c.knobs,
                    "event_log_head": r.event_head,
                }));
            }
        }
        for v in &r.violations {
            total_violations += 1;
            let key = format!("{}|{}", v.kind, summarise(&v.detail));
            *kinds.entry(key).or_insert(0) += 1;
            if let Some(f) = match_finding(&findings, v) {
                *known_hits.entry(f.id.clone()).or_insert(0) += 1;
                known_example(id, seed, &f.id, r.index, r.hash, r.case.as_ref(), v, &mut known_examples);
            } else {
                unknown.push((r.clone(), v.clone()));
            }
        }
        for s in &r.sub_signatures {
            sigs.insert(*s);
        }
        for sf in &r.sub_failures {
            total_violations += sf.count;
            let key = format!("{}|{}", sf.violation.kind, summarise(&sf.violation.detail));
            *kinds.entry(key).or_insert(0) += sf.count;
            if let Some(f) = match_finding(&findings, &sf.violation) {
                *known_hits.entry(f.id.clone()).or_insert(0) += sf.count;
                known_example(id, seed, &f.id, r.index, sf.hash, Some(&sf.case), &sf.violation, &mut known_examples);
            } else {
                let mut rr = r.clone();
                rr.case = Some(sf.case.clone());
                rr.hash = sf.hash;
                rr.sub_failures.clear();
                unknown.push((rr, sf.violation.clone()));
            }
        }
    }
    // determinism self-check: re-run a sample of the seeds and compare fingerprints
    let mut recheck = Vec::new();
    let n_re = ((results.len() as u64) / 50).max(3).min(results.len() as u64);
    for r in results.iter().filter(|r| r.harness_error.is_none()).take(n_re as usize) {
        recheck.push(pool::Job::Gen {
            prop: id.to_string(),
            seed: rng::mix(&[seed, r.index]),
            index: r.index,
            tier: tier_name(tier).to_string(),
            want_case: false,
            base: seed,
        });
    }
    let re = pool.run_all(recheck, 120.0);
    let mut nondet = Vec::new();
    for r in &re {
        if r.harness_error.is_none() && hashes.get(&r.index) != Some(&r.hash) {
            nondet.push(r.index);
        }
    }
    if !nondet.is_empty() {
        harness.push(format!(
            "determinism self-check failed for run indices {:?}",
            nondet
        ));
    }

    // report
    let mut exit = 0;
    let mut reported: BTreeSet<String> = BTreeSet::new();
    let mut replay_paths = Vec::new();
    for (r, v) in &unknown {
        // one report per violation kind
        if !reported.insert(v.kind.clone()) {
            continue;
        }
        if reported.len() > 4 {
            break;
        }
        let case = match &r.case {
            Some(c) => c.clone(),
            None => continue,
        };
        let (mcase, mviol, mhash) = minimise(pool, case, v.clone(), r.hash, verbose);
        let dir = verif_dir().join("replays").join(id);
        std::fs::create_dir_all(&dir).ok();
        let path = dir.join(format!("{}-{}.json", v.kind, r.index));
        let rf = ReplayFile {
            property: id.to_string(),
            violation: mviol.clone(),
            verif_seed: seed,
            run_index: r.index,
            expected_hash: format!("{:016x}", mhash),
            case: mcase,
        };
        std::fs::write(&path, serde_json::to_string_pretty(&rf).unwrap()).ok();
        println!("violation kind={} detail={}", mviol.kind, mviol.detail);
        println!("VIOLATION property={} replay={}", id, path.display());
        replay_paths.push(path.display().to_string());
        exit = 1;
    }
    for f in &findings {
        let n = known_hits.get(&f.id).copied().unwrap_or(0);
        println!(
            "KNOWN-FINDING: property={} {} [{}; reproduced in {} of {} runs]",
            id, f.description, f.id, n, evaluations
        );
    }
    let wall = t0.elapsed().as_secs_f64();
    let ev = serde_json::json!({
        "property_id": id,
        "tier": tier_name(tier),
        "seed": seed,
        "level": prop.level(),
        "coverage": {
            "evaluations": evaluations,
            "distinct_nontrivial": sigs.len(),
            "rule": prop.rule(),
            "samples": samples,
            "exhaustive": false,
            "scheduling_steps": steps,
            "simulated_seconds": sim_ns as f64 / 1e9,
            "runs_per_hour": if wall > 0.0 { evaluations as f64 / wall * 3600.0 } else { 0.0 },
            "yields_by_class": yields,
            "faults_fired": faults,
            "probes": probes,
            "determinism_rechecked_runs": re.len(),
            "determinism_mismatches": nondet.len(),
            "known_findings_matched": known_hits,
            "violation_replays": replay_paths,
            "harness_errors": harness.len(),
            "components": {
                "real": ["redo binary built from the working tree (all personalities)", "bundled SQLite incl. WAL and busy handler", "kernel fcntl locks, pipes, rename/unlink on tmpfs", "process creation and death"],
                "simulated": ["process scheduling (one runnable process at a time)", "clocks, sleeps, select/poll timeouts, 10ms itimer", "getrandom//dev/urandom", "sh replaced by simdo (same #! exec path)", "GNU make as jobserver parent where used"]
            }
        },
        "assumptions": prop.assumptions(),
        "wall_s": wall,
        "violations": total_violations,
    });
    // runs against a scratch tree (PSIM_REPO) never touch the committed evidence
    let evdir = if let Ok(d) = std::env::var("PSIM_EVIDENCE_DIR") {
        // exploratory runs (other seeds, frozen binaries) keep their evidence apart
        PathBuf::from(d)
    } else if repo_dir() == Path::new("/repo") {
        verif_dir().join("evidence")
    } else {
        target_dir().join("scratch-evidence")
    };
    std::fs::create_dir_all(&evdir).ok();
    std::fs::write(
        evdir.join(format!("{}.json", id)),
        serde_json::to_string_pretty(&ev).unwrap(),
    )
    .ok();
    println!(
        "{} {}: {} runs ({} distinct non-trivial), {} steps, {:.1}s simulated, {} violations ({} known), {:.1}s wall",
        id,
        tier_name(tier),
        evaluations,
        sigs.len(),
        steps,
        sim_ns as f64 / 1e9,
        total_violations,
        known_hits.values().sum::<u64>(),
        wall
    );
    for (k, n) in kinds.iter().take(12) {
        println!("  {:5} x {}", n, k);
    }
    if kinds.len() > 12 {
        println!("        ... and {} more violation classes", kinds.len() - 12);
    }
    if !harness.is_empty() {
        for h in harness.iter().take(5) {
            println!("HARNESS-ERROR: {}", h);
        }
        // a harness error is never a verdict; but the check did not do its job
        if exit == 0 && (harness.len() as u64 * 10 > evaluations.max(1) || !nondet.is_empty()) {
            exit = 2;
        }
    }
    exit
}

/// Keep one (unminimised) replay file per known finding reproduced in this
/// batch under replays/<ID>/known-<finding>.json, as a current example.
#[allow(clippy::too_many_arguments)]
fn known_example(
    id: &str,
    seed: u64,
    finding: &str,
    index: u64,
    hash: u64,
    case: Option<&Case>,
    v: &Violation,
    done: &mut BTreeSet<String>,
) {
    let case = match case {
        Some(c) => c,
        None => return,
    };
    if !done.insert(finding.to_string()) {
        return;
    }
    let dir = verif_dir().join("replays").join(id);
    std::fs::create_dir_all(&dir).ok();
    let rf = ReplayFile {
        property: id.to_string(),
        violation: v.clone(),
        verif_seed: seed,
        run_index: index,
        expected_hash: format!("{:016x}", hash),
        case: case.clone(),
    };
    let _ = std::fs::write(
        dir.join(format!("known-{}.json", finding)),
        serde_json::to_string_pretty(&rf).unwrap(),
    );
}

/// Shrink a failing case while the same violation kind persists.
fn minimise(
    pool: &mut pool::Pool,
    case: Case,
    viol: Violation,
    hash: u64,
    verbose: bool,
) -> (Case, Violation, u64) {
    let t0 = Instant::now();
    let mut best = case;
    let mut best_v = viol;
    let mut best_h = hash;
    // pin the schedule of the failing run
    let pinned = pool.run_all(
        vec![pool::Job::Case {
            case: Box::new(best.clone()),
            pin: true,
        }],
        120.0,
    );
    if let Some(r) = pinned.first() {
        if let (Some(c), Some(v)) = (
            r.case.clone(),
            r.violations.iter().find(|v| same_class(v, &best_v)),
        ) {
            best = c;
            best_v = v.clone();
            best_h = r.hash;
        }
    }
    let mut improved = true;
    while improved && t0.elapsed().as_secs() < 45 {
        improved = false;
        let cands = shrink_candidates(&best);
        if cands.is_empty() {
            break;
        }
        let jobs: Vec<pool::Job> = cands
            .iter()
            .map(|c| pool::Job::Case {
                case: Box::new(c.clone()),
                pin: true,
            })
            .collect();
        let rs = pool.run_all(jobs, 120.0);
        // smallest reproducing candidate wins
        let mut pick: Option<(usize, &pool::RunResult)> = None;
        for r in &rs {
            if r.harness_error.is_some() {
                continue;
            }
            if r.violations.iter().any(|v| same_class(v, &best_v)) {
                let size = r.case.as_ref().map(case_size).unwrap_or(usize::MAX);
                if pick.map_or(true, |(s, _)| size < s) {
                    pick = Some((size, r));
                }
            }
        }
        if let Some((size, r)) = pick {
            if size < case_size(&best) {
                if let Some(c) = r.case.clone() {
                    if verbose {
                        eprintln!("minimise: {} -> {}", case_size(&best), size);
                    }
                    best_v = r
                        .violations
                        .iter()
                        .find(|v| same_class(v, &best_v))
                        .cloned()
                        .unwrap();
                    best_h = r.hash;
                    best = c;
                    improved = true;
                }
            }
        }
    }
    (best, best_v, best_h)
}

/// Short class of a violation detail for the summary table.
fn summarise(d: &str) -> String {
    if let Some(i) = d.find("panicked at ") {
        let rest = &d[i + 12..];
        let end = rest.find(|c: char| c == '\n' || c == ' ').unwrap_or(rest.len());
        return rest[..end].trim_end_matches(':').to_string();
    }
    if let Some(i) = d.find("stderr: ") {
        let rest = &d[i + 8..];
        let line = rest.lines().rev().find(|l| !l.trim().is_empty()).unwrap_or("");
        let mut s: String = line.chars().filter(|c| !c.is_ascii_digit()).collect();
        s.truncate(90);
        return s;
    }
    let mut s: String = d.chars().filter(|c| !c.is_ascii_digit()).collect();
    s.truncate(60);
    s
}

fn same_class(a: &Violation, b: &Violation) -> bool {
    a.kind == b.kind && summarise(&a.detail) == summarise(&b.detail)
}

fn case_size(c: &Case) -> usize {
    let mut n = 0;
    n += c.scenario.rules.len() * 20 + c.scenario.files.len() * 5;
    for (_, r) in &c.scenario.rules {
        n += r.stmts.len() * 3;
    }
    for s in &c.scenario.history {
        n += 10;
        if let driver::Step::Cmds(v) = s {
            n += v.len() * 30;
            for c in v {
                n += c.argv.len() * 2;
            }
        }
    }
    for d in c.opts.replay.values() {
        n += d.len() / 4;
    }
    n
}

fn shrink_candidates(c: &Case) -> Vec<Case> {
    use driver::Step;
    let mut out = Vec::new();
    let h = &c.scenario.history;
    // drop one history step (re-index pinned decisions)
    for i in 0..h.len() {
        let mut n = c.clone();
        n.scenario.history.remove(i);
        let mut rp = BTreeMap::new();
        for (k, v) in &c.opts.replay {
            if *k < i {
                rp.insert(*k, v.clone());
            } else if *k > i {
                rp.insert(*k - 1, v.clone());
            }
        }
        n.opts.replay = rp;
        if let Some((g, k, t)) = c.opts.kill_at {
            if g == i {
                continue;
            }
            n.opts.kill_at = Some((if g > i { g - 1 } else { g }, k, t));
        }
        if n.scenario.history.iter().any(|s| matches!(s, Step::Cmds(_))) {
            out.push(n);
        }
    }
    // drop one command of a group / one argument of a command
    for (i, s) in h.iter().enumerate() {
        if let Step::Cmds(v) = s {
            if v.len() > 1 {
                for k in 0..v.len() {
                    let mut n = c.clone();
                    if let Step::Cmds(nv) = &mut n.scenario.history[i] {
                        nv.remove(k);
                    }
                    n.opts.replay.remove(&i);
                    out.push(n);
                }
            }
            for (k, cmd) in v.iter().enumerate() {
                for a in 1..cmd.argv.len() {
                    if cmd.argv.len() <= 2 {
                        break;
                    }
                    // options change what the oracle may assume (--no-pretty,
                    // -k, -jN): only target names are dropped
                    if cmd.argv[a].starts_with('-') {
                        continue;
                    }
                    let mut n = c.clone();
                    if let Step::Cmds(nv) = &mut n.scenario.history[i] {
                        nv[k].argv.remove(a);
                    }
                    out.push(n);
                }
            }
        }
    }
    // truncate pinned decisions (serial suffix)
    for (g, d) in &c.opts.replay {
        if d.len() > 1 {
            for cut in [0usize, d.len() / 2, d.len() * 3 / 4] {
                let mut n = c.clone();
                n.opts.replay.insert(*g, d[..cut].to_vec());
                out.push(n);
            }
        }
    }
    // drop one rule statement that is not the only one
    for (ri, (_, r)) in c.scenario.rules.iter().enumerate() {
        if r.stmts.len() > 1 {
            for si in 0..r.stmts.len() {
                let mut n = c.clone();
                n.scenario.rules[ri].1.stmts.remove(si);
                out.push(n);
            }
        }
    }
    out
}

fn replay(pool: &mut pool::Pool, file: &str) -> i32 {
    let text = match std::fs::read_to_string(file) {
        Ok(t) => t,
        Err(e) => harness_error(&format!("cannot read {}: {}", file, e)),
    };
    let rf: ReplayFile = match serde_json::from_str(&text) {
        Ok(r) => r,
        Err(e) => harness_error(&format!("cannot parse {}: {}", file, e)),
    };
    let rs = pool.run_all(
        vec![pool::Job::Case {
            case: Box::new(rf.case.clone()),
            pin: false,
        }],
        300.0,
    );
    let r = match rs.first() {
        Some(r) => r,
        None => harness_error("replay produced no result"),
    };
    if let Some(e) = &r.harness_error {
        harness_error(e);
    }
    println!(
        "replay: hash {:016x} (expected {}), {} violations",
        r.hash,
        rf.expected_hash,
        r.violations.len()
    );
    for v in &r.violations {
        println!("violation kind={} detail={}", v.kind, v.detail);
    }
    if r.violations.iter().any(|v| v.kind == rf.violation.kind) {
        println!("VIOLATION property={} replay={}", rf.property, file);
        if format!("{:016x}", r.hash) != rf.expected_hash {
            println!("note: violation reproduced but the event-log hash differs (tree changed?)");
        }
        1
    } else {
        println!("replay: the recorded violation did not reproduce on this tree");
        0
    }
}

fn selftest_determinism(pool: &mut pool::Pool, seed: u64, args: &[String]) -> i32 {
    let n: u64 = arg_value(args, "--runs")
        .and_then(|s| s.parse().ok())
        .unwrap_or(200);
    let mut bad = 0;
    let mut total = 0;
    for p in props::all() {
        let mk = |_round: u64| -> Vec<pool::Job> {
            (0..n)
                .map(|i| pool::Job::Gen {
                    prop: p.id().to_string(),
                    seed: rng::mix(&[seed, i]),
                    index: i,
                    tier: "quick".into(),
                    want_case: false,
                    base: seed,
                })
                .collect()
        };
        let a = pool.run_all(mk(0), 1200.0);
        let b = pool.run_all(mk(1), 1200.0);
        let ha: BTreeMap<u64, u64> = a.iter().map(|r| (r.index, r.hash)).collect();
        for r in &b {
            total += 1;
            if r.harness_error.is_some() {
                continue;
            }
            if ha.get(&r.index) != Some(&r.hash) {
                bad += 1;
                println!("NONDETERMINISM property={} run_index={}", p.id(), r.index);
            }
        }
        let he = a.iter().chain(b.iter()).filter(|r| r.harness_error.is_some()).count();
        println!("{}: {} seeds twice, harness errors {}", p.id(), n, he);
    }
    println!("selftest-determinism: {} of {} runs differed", bad, total);
    if bad > 0 {
        2
    } else {
        0
    }
}

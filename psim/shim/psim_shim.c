/*
 * psim_shim.so -- LD_PRELOAD seam between the processes of a redo build tree
 * and the psim simulator (see /verif/DESIGN.md sections 2, 3 and appendix B).
 *
 * Every libc entry point through which a process of the tree can observe or
 * change shared state (process table, fcntl locks, pipes, clocks, randomness,
 * files below the scenario root) is wrapped.  A wrapped call of a "yield
 * class" sends one message to the simulator and blocks in recv() until the
 * simulator answers, so at any instant at most one process of the tree runs.
 *
 * Wire format: one text message per SOCK_SEQPACKET datagram.
 *   shim -> sim   H <kind> <pid> <ppid> <argv0>\t<REDO_TARGET>\t<cwd>
 *                 O <dirty> <class> <blocking> <timeout_ns> <name and detail>
 *                 I <text>                       (no answer expected)
 *                 R <0|1>                        (answer to P)
 *   sim -> shim   G <now_ns> [<seed>]            go
 *                 T <now_ns>                     timed out
 *                 E <now_ns>                     interrupted (simulated SIGALRM)
 *                 P                              probe: would the parked call block?
 *
 * The shim is inert unless PSIM_SOCK is set.
 */
#define _GNU_SOURCE
#include <dlfcn.h>
#include <errno.h>
#include <fcntl.h>
#include <poll.h>
#include <signal.h>
#include <spawn.h>
#include <stdarg.h>
#include <stdint.h>
#include <stdio.h>
#include <stdlib.h>
#include <string.h>
#include <sys/select.h>
#include <sys/socket.h>
#include <sys/stat.h>
#include <sys/syscall.h>
#include <sys/time.h>
#include <sys/types.h>
#include <sys/uio.h>
#include <sys/un.h>
#include <sys/wait.h>
#include <sys/resource.h>
#include <time.h>
#include <unistd.h>

#define EVENT_FD (-4242)
#define SIM_FD_MIN 800
#define EPOCH_BASE_S 1000000000LL /* simulated CLOCK_REALTIME origin (2001) */
#define MONO_BASE_S 1000LL

static int enabled = 0;
static int sim_fd = -1;
static long long now_ns = 0;
static uint64_t prng_state = 0x9E3779B97F4A7C15ULL;
static int dirty = 0;          /* un-yielded call that may change others' readiness */
static int clock_spin = 0;     /* consecutive clock reads without a yield */
static char root[512];
static size_t root_len = 0;
static dev_t root_dev = 0;
static int urandom_fds[8] = {-1, -1, -1, -1, -1, -1, -1, -1};

/* ------------------------------------------------------------------ real */

#define REAL(ret, name, ...)                                                   \
    static ret (*real_##name)(__VA_ARGS__) = NULL;
#define LOAD(name)                                                             \
    do {                                                                       \
        if (!real_##name)                                                      \
            real_##name = dlsym(RTLD_NEXT, #name);                             \
    } while (0)

REAL(long, syscall, long, ...)
REAL(pid_t, fork, void)
REAL(int, execve, const char *, char *const[], char *const[])
REAL(int, execvpe, const char *, char *const[], char *const[])
REAL(int, posix_spawn, pid_t *, const char *, const posix_spawn_file_actions_t *,
     const posix_spawnattr_t *, char *const[], char *const[])
REAL(int, posix_spawnp, pid_t *, const char *, const posix_spawn_file_actions_t *,
     const posix_spawnattr_t *, char *const[], char *const[])
REAL(void, exit, int)
REAL(void, _exit, int)
REAL(pid_t, waitpid, pid_t, int *, int)
REAL(pid_t, wait4, pid_t, int *, int, struct rusage *)
REAL(int, waitid, idtype_t, id_t, siginfo_t *, int)
REAL(int, fcntl, int, int, ...)
REAL(int, fcntl64, int, int, ...)
REAL(ssize_t, read, int, void *, size_t)
REAL(ssize_t, write, int, const void *, size_t)
REAL(ssize_t, readv, int, const struct iovec *, int)
REAL(ssize_t, writev, int, const struct iovec *, int)
REAL(ssize_t, pwrite, int, const void *, size_t, off_t)
REAL(ssize_t, pwrite64, int, const void *, size_t, off_t)
REAL(int, select, int, fd_set *, fd_set *, fd_set *, struct timeval *)
REAL(int, pselect, int, fd_set *, fd_set *, fd_set *, const struct timespec *,
     const sigset_t *)
REAL(int, poll, struct pollfd *, nfds_t, int)
REAL(int, ppoll, struct pollfd *, nfds_t, const struct timespec *, const sigset_t *)
REAL(int, open, const char *, int, ...)
REAL(int, open64, const char *, int, ...)
REAL(int, openat, int, const char *, int, ...)
REAL(int, openat64, int, const char *, int, ...)
REAL(int, rename, const char *, const char *)
REAL(int, renameat, int, const char *, int, const char *)
REAL(int, renameat2, int, const char *, int, const char *, unsigned)
REAL(int, unlink, const char *)
REAL(int, unlinkat, int, const char *, int)
REAL(int, mkdir, const char *, mode_t)
REAL(int, rmdir, const char *)
REAL(int, symlink, const char *, const char *)
REAL(int, link, const char *, const char *)
REAL(int, truncate, const char *, off_t)
REAL(int, truncate64, const char *, off_t)
REAL(int, ftruncate, int, off_t)
REAL(int, ftruncate64, int, off_t)
REAL(int, utimes, const char *, const struct timeval[2])
REAL(int, utimensat, int, const char *, const struct timespec[2], int)
REAL(int, futimens, int, const struct timespec[2])
REAL(int, close, int)
REAL(int, dup2, int, int)
REAL(int, dup3, int, int, int)
REAL(ssize_t, copy_file_range, int, off64_t *, int, off64_t *, size_t, unsigned)
REAL(ssize_t, sendfile, int, int, off_t *, size_t)
REAL(ssize_t, sendfile64, int, int, off64_t *, size_t)
REAL(ssize_t, splice, int, off64_t *, int, off64_t *, size_t, unsigned)
REAL(int, clock_gettime, clockid_t, struct timespec *)
REAL(int, setitimer, __itimer_which_t, const struct itimerval *, struct itimerval *)

/* raw system calls for the shim's own I/O: never re-enter a wrapper */
#define RAW(...) (load_syscall(), real_syscall(__VA_ARGS__))
static void load_syscall(void) { LOAD(syscall); }

static void die(const char *msg) {
    char buf[256];
    int n = snprintf(buf, sizeof buf, "psim_shim[%d]: %s (errno %d)\n", (int)RAW(SYS_getpid),
                     msg, errno);
    RAW(SYS_write, 2, buf, n);
    RAW(SYS_exit_group, 97);
    for (;;) {
    }
}

/* ------------------------------------------------------------ connection */

static void sim_send(const char *buf, size_t n) {
    for (;;) {
        long r = RAW(SYS_sendto, sim_fd, buf, n, MSG_NOSIGNAL, NULL, 0);
        if (r >= 0)
            return;
        if (errno == EINTR)
            continue;
        die("send to simulator failed");
    }
}

static void sim_sendf(const char *fmt, ...) {
    char buf[4096];
    va_list ap;
    va_start(ap, fmt);
    int n = vsnprintf(buf, sizeof buf, fmt, ap);
    va_end(ap);
    if (n < 0)
        n = 0;
    if (n >= (int)sizeof buf)
        n = sizeof buf - 1;
    sim_send(buf, n);
}

static int sim_recv(char *buf, size_t cap) {
    for (;;) {
        long r = RAW(SYS_recvfrom, sim_fd, buf, cap - 1, 0, NULL, NULL);
        if (r > 0) {
            buf[r] = 0;
            return (int)r;
        }
        if (r == 0) {
            /* simulator went away: the run is over */
            RAW(SYS_exit_group, 98);
        }
        if (errno == EINTR)
            continue;
        die("recv from simulator failed");
    }
}

typedef int (*probe_fn)(void *);

/* Wait for the simulator's verdict; returns 'G', 'T' or 'E'. */
static int await_verdict(probe_fn probe, void *ctx) {
    char buf[128];
    for (;;) {
        sim_recv(buf, sizeof buf);
        if (buf[0] == 'P') {
            int ready = probe ? probe(ctx) : 1;
            char r[4] = {'R', ' ', ready ? '1' : '0', 0};
            sim_send(r, 3);
            continue;
        }
        if (buf[0] == 'G' || buf[0] == 'T' || buf[0] == 'E') {
            char *end = NULL;
            now_ns = strtoll(buf + 2, &end, 10);
            if (buf[0] == 'G' && end && *end == ' ') {
                uint64_t s = strtoull(end + 1, NULL, 10);
                if (s)
                    prng_state = s;
            }
            clock_spin = 0;
            return buf[0];
        }
        die("bad message from simulator");
    }
}

static int park(const char *cls, int blocking, long long timeout_ns, probe_fn probe, void *ctx,
                const char *fmt, ...) {
    char buf[4096];
    int n = snprintf(buf, sizeof buf, "O %d %s %d %lld ", dirty, cls, blocking, timeout_ns);
    va_list ap;
    va_start(ap, fmt);
    int m = vsnprintf(buf + n, sizeof buf - n, fmt, ap);
    va_end(ap);
    if (m < 0)
        m = 0;
    n += m;
    if (n >= (int)sizeof buf)
        n = sizeof buf - 1;
    dirty = 0;
    sim_send(buf, n);
    return await_verdict(probe, ctx);
}

static void sim_connect(const char *kind) {
    const char *path = getenv("PSIM_SOCK");
    if (!path || !*path) {
        enabled = 0;
        return;
    }
    int fd = (int)RAW(SYS_socket, AF_UNIX, SOCK_SEQPACKET | SOCK_CLOEXEC, 0);
    if (fd < 0)
        die("socket");
    struct sockaddr_un sa;
    memset(&sa, 0, sizeof sa);
    sa.sun_family = AF_UNIX;
    strncpy(sa.sun_path, path, sizeof sa.sun_path - 1);
    if (RAW(SYS_connect, fd, &sa, sizeof sa) < 0)
        die("connect to simulator");
    int hi = (int)RAW(SYS_fcntl, fd, F_DUPFD_CLOEXEC, SIM_FD_MIN);
    if (hi < 0)
        die("dup simulator fd");
    RAW(SYS_close, fd);
    sim_fd = hi;
    enabled = 1;

    const char *r = getenv("PSIM_ROOT");
    if (r && *r) {
        strncpy(root, r, sizeof root - 1);
        root_len = strlen(root);
        struct stat st;
        if (RAW(SYS_newfstatat, AT_FDCWD, root, &st, 0) == 0)
            root_dev = st.st_dev;
    }
    char argv0[256] = "?";
    {
        int cfd = (int)RAW(SYS_openat, AT_FDCWD, "/proc/self/cmdline", O_RDONLY | O_CLOEXEC, 0);
        if (cfd >= 0) {
            long k = RAW(SYS_read, cfd, argv0, sizeof argv0 - 1);
            if (k > 0)
                argv0[k] = 0; /* first NUL ends argv[0] */
            RAW(SYS_close, cfd);
        }
    }
    char cwd[1024] = "";
    if (RAW(SYS_getcwd, cwd, sizeof cwd) < 0)
        cwd[0] = 0;
    const char *tgt = getenv("REDO_TARGET");
    sim_sendf("H %s %d %d %s\t%s\t%s", kind, (int)RAW(SYS_getpid), (int)RAW(SYS_getppid), argv0,
              tgt ? tgt : "", cwd);
    for (int i = 0; i < 8; i++)
        urandom_fds[i] = -1;
    await_verdict(NULL, NULL);
}

__attribute__((constructor)) static void shim_init(void) { sim_connect("start"); }

/* ------------------------------------------------------------- utilities */

static uint64_t prng_next(void) {
    /* splitmix64 */
    uint64_t z = (prng_state += 0x9E3779B97F4A7C15ULL);
    z = (z ^ (z >> 30)) * 0xBF58476D1CE4E5B9ULL;
    z = (z ^ (z >> 27)) * 0x94D049BB133111EBULL;
    return z ^ (z >> 31);
}

static void prng_fill(void *buf, size_t n) {
    unsigned char *p = buf;
    while (n) {
        uint64_t v = prng_next();
        size_t k = n < 8 ? n : 8;
        memcpy(p, &v, k);
        p += k;
        n -= k;
    }
}

static int is_urandom_fd(int fd) {
    if (fd < 0)
        return 0;
    for (int i = 0; i < 8; i++)
        if (urandom_fds[i] == fd)
            return 1;
    return 0;
}

static void note_urandom(int fd, const char *path) {
    if (fd < 0 || !path)
        return;
    if (strcmp(path, "/dev/urandom") != 0 && strcmp(path, "/dev/random") != 0)
        return;
    for (int i = 0; i < 8; i++)
        if (urandom_fds[i] < 0) {
            urandom_fds[i] = fd;
            return;
        }
}

static void forget_fd(int fd) {
    for (int i = 0; i < 8; i++)
        if (urandom_fds[i] == fd)
            urandom_fds[i] = -1;
}

/* absolute, not normalised; returns 1 when the path lies below the root */
static int under_root_at(int dirfd, const char *path, char *out, size_t cap) {
    if (!root_len || !path)
        return 0;
    if (path[0] == '/') {
        snprintf(out, cap, "%s", path);
    } else if (dirfd == AT_FDCWD) {
        char cwd[1024];
        if (RAW(SYS_getcwd, cwd, sizeof cwd) < 0)
            return 0;
        snprintf(out, cap, "%s/%s", cwd, path);
    } else {
        char lnk[64], dir[1024];
        snprintf(lnk, sizeof lnk, "/proc/self/fd/%d", dirfd);
        long k = RAW(SYS_readlinkat, AT_FDCWD, lnk, dir, sizeof dir - 1);
        if (k <= 0)
            return 0;
        dir[k] = 0;
        snprintf(out, cap, "%s/%s", dir, path);
    }
    return strncmp(out, root, root_len) == 0 && (out[root_len] == '/' || out[root_len] == 0);
}

static const char *rel(const char *abs) {
    if (root_len && strncmp(abs, root, root_len) == 0) {
        const char *p = abs + root_len;
        while (*p == '/')
            p++;
        return *p ? p : ".";
    }
    return abs;
}

static int fd_path(int fd, char *out, size_t cap) {
    char lnk[64];
    snprintf(lnk, sizeof lnk, "/proc/self/fd/%d", fd);
    long k = RAW(SYS_readlinkat, AT_FDCWD, lnk, out, cap - 1);
    if (k <= 0) {
        out[0] = 0;
        return 0;
    }
    out[k] = 0;
    return 1;
}

enum { FD_OTHER = 0, FD_PIPE = 1, FD_ROOTFILE = 2 };

static int fd_kind(int fd, struct stat *stp) {
    struct stat st;
    if (RAW(SYS_fstat, fd, &st) < 0)
        return FD_OTHER;
    if (stp)
        *stp = st;
    if (S_ISFIFO(st.st_mode) || S_ISSOCK(st.st_mode))
        return FD_PIPE;
    if (S_ISREG(st.st_mode) && root_dev && st.st_dev == root_dev)
        return FD_ROOTFILE;
    return FD_OTHER;
}

static int fd_nonblock(int fd) {
    long fl = RAW(SYS_fcntl, fd, F_GETFL, 0);
    return fl >= 0 && (fl & O_NONBLOCK);
}

static int probe_pollin(void *ctx) {
    struct pollfd p = {.fd = *(int *)ctx, .events = POLLIN};
    struct timespec z = {0, 0};
    long r = RAW(SYS_ppoll, &p, 1, &z, NULL, 8);
    return r != 0;
}

static int probe_pollout(void *ctx) {
    struct pollfd p = {.fd = *(int *)ctx, .events = POLLOUT};
    struct timespec z = {0, 0};
    long r = RAW(SYS_ppoll, &p, 1, &z, NULL, 8);
    return r != 0;
}

/* Yield for a write to a regular file below the root. */
static void yield_filewrite(int fd, const char *what, size_t n) {
    char p[1024];
    fd_path(fd, p, sizeof p);
    park("fsw", 0, -1, NULL, NULL, "%s %s %zu", what, rel(p), n);
}

/* File times live in simulated time too: whatever a process of the system
 * writes or creates below the root gets the simulated clock as its mtime (the
 * kernel would use the real clock, which the run must not depend on). */
static void sim_times(struct timespec ts[2]) {
    long long t = EPOCH_BASE_S * 1000000000LL + now_ns;
    ts[0].tv_sec = ts[1].tv_sec = t / 1000000000LL;
    ts[0].tv_nsec = ts[1].tv_nsec = t % 1000000000LL;
}

static void stamp_fd(int fd) {
    struct timespec ts[2];
    sim_times(ts);
    RAW(SYS_utimensat, fd, NULL, ts, 0);
}

static void stamp_path(int dirfd, const char *path, int nofollow) {
    char abs[2048];
    if (!under_root_at(dirfd, path, abs, sizeof abs))
        return;
    struct timespec ts[2];
    sim_times(ts);
    RAW(SYS_utimensat, AT_FDCWD, abs, ts, nofollow ? AT_SYMLINK_NOFOLLOW : 0);
}

/* replace NULL / UTIME_NOW by the simulated clock */
static const struct timespec *fix_times(const struct timespec in[2], struct timespec out[2]) {
    struct timespec now[2];
    sim_times(now);
    for (int i = 0; i < 2; i++) {
        if (!in || in[i].tv_nsec == UTIME_NOW)
            out[i] = now[i];
        else
            out[i] = in[i];
    }
    return out;
}

/* ------------------------------------------------------- process control */

pid_t fork(void) {
    LOAD(fork);
    if (!enabled)
        return real_fork();
    park("proc", 0, -1, NULL, NULL, "fork");
    pid_t pid = real_fork();
    if (pid == 0) {
        RAW(SYS_close, sim_fd);
        sim_fd = -1;
        dirty = 0;
        sim_connect("fork");
        return 0;
    }
    if (pid > 0)
        sim_sendf("I forked %d", (int)pid);
    else
        sim_sendf("I forkfail %d", errno);
    return pid;
}

pid_t vfork(void) { return fork(); }

static void describe_argv(char *out, size_t cap, char *const argv[]) {
    size_t n = 0;
    out[0] = 0;
    for (int i = 0; argv && argv[i] && i < 12; i++) {
        int k = snprintf(out + n, cap - n, "%s%s", i ? " " : "", argv[i]);
        if (k < 0 || (size_t)k >= cap - n)
            break;
        n += k;
    }
}

int execve(const char *path, char *const argv[], char *const envp[]) {
    LOAD(execve);
    if (enabled) {
        char a[1024];
        describe_argv(a, sizeof a, argv);
        park("proc", 0, -1, NULL, NULL, "exec %s", a);
    }
    return real_execve(path, argv, envp);
}

int execv(const char *path, char *const argv[]) { return execve(path, argv, environ); }

int execvpe(const char *file, char *const argv[], char *const envp[]) {
    LOAD(execvpe);
    if (enabled) {
        char a[1024];
        describe_argv(a, sizeof a, argv);
        park("proc", 0, -1, NULL, NULL, "exec %s", a);
    }
    return real_execvpe(file, argv, envp);
}

int execvp(const char *file, char *const argv[]) { return execvpe(file, argv, environ); }

int posix_spawn(pid_t *pid, const char *path, const posix_spawn_file_actions_t *fa,
                const posix_spawnattr_t *attr, char *const argv[], char *const envp[]) {
    LOAD(posix_spawn);
    if (!enabled)
        return real_posix_spawn(pid, path, fa, attr, argv, envp);
    char a[1024];
    describe_argv(a, sizeof a, argv);
    park("proc", 0, -1, NULL, NULL, "spawn %s", a);
    pid_t p = 0;
    int r = real_posix_spawn(&p, path, fa, attr, argv, envp);
    if (r == 0)
        sim_sendf("I spawned %d", (int)p);
    else
        sim_sendf("I spawnfail %d", r);
    if (pid)
        *pid = p;
    return r;
}

int posix_spawnp(pid_t *pid, const char *file, const posix_spawn_file_actions_t *fa,
                 const posix_spawnattr_t *attr, char *const argv[], char *const envp[]) {
    LOAD(posix_spawnp);
    if (!enabled)
        return real_posix_spawnp(pid, file, fa, attr, argv, envp);
    char a[1024];
    describe_argv(a, sizeof a, argv);
    park("proc", 0, -1, NULL, NULL, "spawn %s", a);
    pid_t p = 0;
    int r = real_posix_spawnp(&p, file, fa, attr, argv, envp);
    if (r == 0)
        sim_sendf("I spawned %d", (int)p);
    else
        sim_sendf("I spawnfail %d", r);
    if (pid)
        *pid = p;
    return r;
}

void exit(int code) {
    LOAD(exit);
    if (enabled)
        park("proc", 0, -1, NULL, NULL, "exit %d", code);
    real_exit(code);
    for (;;) {
    }
}

void _exit(int code) {
    LOAD(_exit);
    if (enabled)
        park("proc", 0, -1, NULL, NULL, "exit %d", code);
    real__exit(code);
    for (;;) {
    }
}

void _Exit(int code) { _exit(code); }

struct wait_ctx {
    idtype_t idtype;
    id_t id;
};

static int probe_wait(void *ctx) {
    struct wait_ctx *w = ctx;
    siginfo_t si;
    memset(&si, 0, sizeof si);
    long r = RAW(SYS_waitid, w->idtype, w->id, &si, WEXITED | WNOHANG | WNOWAIT, NULL);
    if (r < 0)
        return 1; /* ECHILD etc.: the real call returns at once */
    return si.si_pid != 0;
}

static void wait_ctx_from_pid(struct wait_ctx *w, pid_t pid) {
    if (pid > 0) {
        w->idtype = P_PID;
        w->id = pid;
    } else if (pid == -1) {
        w->idtype = P_ALL;
        w->id = 0;
    } else {
        w->idtype = P_PGID;
        w->id = pid == 0 ? 0 : -pid;
    }
}

static void report_wait(pid_t got, int status) {
    if (got > 0)
        sim_sendf("I waited %d %d", (int)got, status);
}

pid_t waitpid(pid_t pid, int *status, int options) {
    LOAD(waitpid);
    if (!enabled)
        return real_waitpid(pid, status, options);
    struct wait_ctx w;
    wait_ctx_from_pid(&w, pid);
    int blocking = !(options & WNOHANG);
    park("wait", blocking, -1, probe_wait, &w, "waitpid %d", (int)pid);
    int st = 0;
    pid_t r = real_waitpid(pid, &st, options);
    if (status)
        *status = st;
    report_wait(r, st);
    return r;
}

pid_t wait4(pid_t pid, int *status, int options, struct rusage *ru) {
    LOAD(wait4);
    if (!enabled)
        return real_wait4(pid, status, options, ru);
    struct wait_ctx w;
    wait_ctx_from_pid(&w, pid);
    int blocking = !(options & WNOHANG);
    park("wait", blocking, -1, probe_wait, &w, "waitpid %d", (int)pid);
    int st = 0;
    pid_t r = real_wait4(pid, &st, options, ru);
    if (status)
        *status = st;
    report_wait(r, st);
    return r;
}

pid_t wait3(int *status, int options, struct rusage *ru) { return wait4(-1, status, options, ru); }

pid_t wait(int *status) { return waitpid(-1, status, 0); }

int waitid(idtype_t idtype, id_t id, siginfo_t *info, int options) {
    LOAD(waitid);
    if (!enabled)
        return real_waitid(idtype, id, info, options);
    struct wait_ctx w = {idtype, id};
    int blocking = !(options & WNOHANG);
    park("wait", blocking, -1, probe_wait, &w, "waitid %d", (int)id);
    int r = real_waitid(idtype, id, info, options);
    if (r == 0 && info && info->si_pid && !(options & WNOWAIT)) {
        int st = info->si_code == CLD_EXITED ? (info->si_status & 0xff) << 8
                                             : (info->si_status & 0x7f);
        report_wait(info->si_pid, st);
    }
    return r;
}

/* ----------------------------------------------------------------- locks */

struct lock_ctx {
    int fd;
    int cmd_get;
    struct flock fl;
};

static int probe_lock(void *ctx) {
    struct lock_ctx *l = ctx;
    struct flock q = l->fl;
    long r = RAW(SYS_fcntl, l->fd, l->cmd_get, &q);
    if (r < 0)
        return 1;
    return q.l_type == F_UNLCK;
}

static int do_fcntl(int fd, int cmd, void *arg, int is64) {
    LOAD(fcntl);
    LOAD(fcntl64);
    int (*realf)(int, int, ...) = (is64 && real_fcntl64) ? real_fcntl64 : real_fcntl;
    if (!enabled)
        return realf(fd, cmd, arg);
    int is_lock = (cmd == F_SETLK || cmd == F_SETLKW || cmd == F_OFD_SETLK || cmd == F_OFD_SETLKW);
    if (is_lock && arg) {
        struct flock *fl = arg;
        int blocking = (cmd == F_SETLKW || cmd == F_OFD_SETLKW) && fl->l_type != F_UNLCK;
        struct lock_ctx lc;
        lc.fd = fd;
        lc.cmd_get = (cmd == F_OFD_SETLK || cmd == F_OFD_SETLKW) ? F_OFD_GETLK : F_GETLK;
        lc.fl = *fl;
        lc.fl.l_pid = 0;
        char p[1024];
        fd_path(fd, p, sizeof p);
        const char *ty = fl->l_type == F_UNLCK ? "un" : (fl->l_type == F_RDLCK ? "rd" : "wr");
        park("lock", blocking, -1, probe_lock, &lc, "%s %s %s %lld %lld",
             blocking ? "setlkw" : "setlk", rel(p), ty, (long long)fl->l_start,
             (long long)fl->l_len);
        int r = realf(fd, cmd, arg);
        if (r < 0 && !blocking && fl->l_type != F_UNLCK)
            sim_sendf("I lockbusy %s %lld", rel(p), (long long)fl->l_start);
        return r;
    }
    if (cmd == F_DUPFD || cmd == F_DUPFD_CLOEXEC) {
        int r = realf(fd, cmd, arg);
        if (r >= 0 && is_urandom_fd(fd))
            note_urandom(r, "/dev/urandom");
        return r;
    }
    return realf(fd, cmd, arg);
}

int fcntl(int fd, int cmd, ...) {
    va_list ap;
    va_start(ap, cmd);
    void *arg = va_arg(ap, void *);
    va_end(ap);
    return do_fcntl(fd, cmd, arg, 0);
}

int fcntl64(int fd, int cmd, ...) {
    va_list ap;
    va_start(ap, cmd);
    void *arg = va_arg(ap, void *);
    va_end(ap);
    return do_fcntl(fd, cmd, arg, 1);
}

/* ------------------------------------------------------------ read/write */

ssize_t read(int fd, void *buf, size_t n) {
    LOAD(read);
    if (!enabled || fd == sim_fd)
        return real_read(fd, buf, n);
    if (is_urandom_fd(fd)) {
        prng_fill(buf, n);
        return (ssize_t)n;
    }
    if (fd_kind(fd, NULL) == FD_PIPE) {
        struct stat st;
        fd_kind(fd, &st);
        int blocking = !fd_nonblock(fd);
        int v = park("pipe", blocking, -1, probe_pollin, &fd, "read %d %lu %zu", fd,
                     (unsigned long)st.st_ino, n);
        if (v == 'E') {
            errno = EINTR;
            return -1;
        }
    }
    return real_read(fd, buf, n);
}

ssize_t readv(int fd, const struct iovec *iov, int cnt) {
    LOAD(readv);
    if (!enabled || fd == sim_fd)
        return real_readv(fd, iov, cnt);
    if (fd_kind(fd, NULL) == FD_PIPE) {
        struct stat st;
        fd_kind(fd, &st);
        int blocking = !fd_nonblock(fd);
        int v = park("pipe", blocking, -1, probe_pollin, &fd, "read %d %lu 0", fd,
                     (unsigned long)st.st_ino);
        if (v == 'E') {
            errno = EINTR;
            return -1;
        }
    }
    return real_readv(fd, iov, cnt);
}

static ssize_t pipe_write(int fd, const void *buf, size_t n, unsigned long ino) {
    LOAD(write);
    const char *p = buf;
    size_t done = 0;
    int nb = fd_nonblock(fd);
    for (;;) {
        int v = park("pipe", !nb, -1, probe_pollout, &fd, "write %d %lu %zu", fd, ino, n - done);
        if (v == 'E') {
            if (done)
                return (ssize_t)done;
            errno = EINTR;
            return -1;
        }
        long fl = -1;
        if (!nb) {
            fl = RAW(SYS_fcntl, fd, F_GETFL, 0);
            RAW(SYS_fcntl, fd, F_SETFL, fl | O_NONBLOCK);
        }
        ssize_t w = real_write(fd, p + done, n - done);
        int e = errno;
        if (!nb)
            RAW(SYS_fcntl, fd, F_SETFL, fl);
        errno = e;
        if (w < 0) {
            if (e == EAGAIN && !nb)
                continue;
            return done ? (ssize_t)done : -1;
        }
        done += (size_t)w;
        if (done >= n || nb)
            return (ssize_t)done;
    }
}

ssize_t write(int fd, const void *buf, size_t n) {
    LOAD(write);
    if (!enabled || fd == sim_fd)
        return real_write(fd, buf, n);
    if (fd == EVENT_FD) {
        size_t k = n > 3000 ? 3000 : n;
        park("event", 0, -1, NULL, NULL, "%.*s", (int)k, (const char *)buf);
        return (ssize_t)n;
    }
    struct stat st;
    int k = fd_kind(fd, &st);
    if (k == FD_PIPE)
        return pipe_write(fd, buf, n, (unsigned long)st.st_ino);
    if (k == FD_ROOTFILE) {
        yield_filewrite(fd, "write", n);
        ssize_t r = real_write(fd, buf, n);
        stamp_fd(fd);
        return r;
    }
    return real_write(fd, buf, n);
}

ssize_t writev(int fd, const struct iovec *iov, int cnt) {
    LOAD(writev);
    if (!enabled || fd == sim_fd)
        return real_writev(fd, iov, cnt);
    struct stat st;
    int k = fd_kind(fd, &st);
    if (k == FD_PIPE) {
        /* emulate with sequential writes of each segment */
        ssize_t total = 0;
        for (int i = 0; i < cnt; i++) {
            if (!iov[i].iov_len)
                continue;
            ssize_t w = pipe_write(fd, iov[i].iov_base, iov[i].iov_len, (unsigned long)st.st_ino);
            if (w < 0)
                return total ? total : -1;
            total += w;
            if ((size_t)w < iov[i].iov_len)
                break;
        }
        return total;
    }
    if (k == FD_ROOTFILE) {
        yield_filewrite(fd, "write", 0);
        ssize_t r = real_writev(fd, iov, cnt);
        stamp_fd(fd);
        return r;
    }
    return real_writev(fd, iov, cnt);
}

ssize_t pwrite(int fd, const void *buf, size_t n, off_t off) {
    LOAD(pwrite);
    if (enabled && fd_kind(fd, NULL) == FD_ROOTFILE) {
        yield_filewrite(fd, "pwrite", n);
        ssize_t r = real_pwrite(fd, buf, n, off);
        stamp_fd(fd);
        return r;
    }
    return real_pwrite(fd, buf, n, off);
}

ssize_t pwrite64(int fd, const void *buf, size_t n, off_t off) {
    LOAD(pwrite64);
    if (enabled && fd_kind(fd, NULL) == FD_ROOTFILE) {
        yield_filewrite(fd, "pwrite", n);
        ssize_t r = real_pwrite64(fd, buf, n, off);
        stamp_fd(fd);
        return r;
    }
    return real_pwrite64(fd, buf, n, off);
}

static int any_fifo(int a, int b) {
    return fd_kind(a, NULL) == FD_PIPE || fd_kind(b, NULL) == FD_PIPE;
}

ssize_t copy_file_range(int in, off64_t *oin, int out, off64_t *oout, size_t n, unsigned fl) {
    LOAD(copy_file_range);
    if (enabled) {
        if (any_fifo(in, out)) {
            errno = EINVAL;
            return -1;
        }
        if (fd_kind(out, NULL) == FD_ROOTFILE) {
            yield_filewrite(out, "copy", n);
            ssize_t r = real_copy_file_range(in, oin, out, oout, n, fl);
            stamp_fd(out);
            return r;
        }
    }
    return real_copy_file_range(in, oin, out, oout, n, fl);
}

ssize_t sendfile(int out, int in, off_t *off, size_t n) {
    LOAD(sendfile);
    if (enabled) {
        if (any_fifo(in, out)) {
            errno = EINVAL;
            return -1;
        }
        if (fd_kind(out, NULL) == FD_ROOTFILE) {
            yield_filewrite(out, "copy", n);
            ssize_t r = real_sendfile(out, in, off, n);
            stamp_fd(out);
            return r;
        }
    }
    return real_sendfile(out, in, off, n);
}

ssize_t sendfile64(int out, int in, off64_t *off, size_t n) {
    LOAD(sendfile64);
    if (enabled) {
        if (any_fifo(in, out)) {
            errno = EINVAL;
            return -1;
        }
        if (fd_kind(out, NULL) == FD_ROOTFILE) {
            yield_filewrite(out, "copy", n);
            ssize_t r = real_sendfile64(out, in, off, n);
            stamp_fd(out);
            return r;
        }
    }
    return real_sendfile64(out, in, off, n);
}

ssize_t splice(int in, off64_t *oin, int out, off64_t *oout, size_t n, unsigned fl) {
    LOAD(splice);
    if (enabled) {
        errno = EINVAL; /* force the caller's read/write fallback, which is scheduled */
        return -1;
    }
    return real_splice(in, oin, out, oout, n, fl);
}

/* ------------------------------------------------------------ select/poll */

struct select_ctx {
    int nfds;
    fd_set *r, *w, *e;
};

static int probe_select(void *ctx) {
    struct select_ctx *s = ctx;
    fd_set r, w, e;
    FD_ZERO(&r);
    FD_ZERO(&w);
    FD_ZERO(&e);
    if (s->r)
        r = *s->r;
    if (s->w)
        w = *s->w;
    if (s->e)
        e = *s->e;
    struct timespec z = {0, 0};
    long k = RAW(SYS_pselect6, s->nfds, s->r ? &r : NULL, s->w ? &w : NULL, s->e ? &e : NULL, &z,
                 NULL);
    return k != 0;
}

static void describe_fdset(char *out, size_t cap, int nfds, fd_set *s) {
    size_t n = 0;
    out[0] = 0;
    if (!s)
        return;
    for (int i = 0; i < nfds && n + 8 < cap; i++)
        if (FD_ISSET(i, s))
            n += snprintf(out + n, cap - n, "%s%d", n ? "," : "", i);
}

static int do_select(int nfds, fd_set *r, fd_set *w, fd_set *e, long long timeout_ns) {
    struct select_ctx sc = {nfds, r, w, e};
    char d[512];
    describe_fdset(d, sizeof d, nfds, r);
    int blocking = timeout_ns != 0;
    int v = park("pipe", blocking, timeout_ns, probe_select, &sc, "select [%s]", d);
    if (v == 'T') {
        if (r)
            FD_ZERO(r);
        if (w)
            FD_ZERO(w);
        if (e)
            FD_ZERO(e);
        return 0;
    }
    if (v == 'E') {
        errno = EINTR;
        return -1;
    }
    struct timespec z = {0, 0};
    return (int)RAW(SYS_pselect6, nfds, r, w, e, &z, NULL);
}

int select(int nfds, fd_set *r, fd_set *w, fd_set *e, struct timeval *tv) {
    LOAD(select);
    if (!enabled)
        return real_select(nfds, r, w, e, tv);
    long long t = tv ? (long long)tv->tv_sec * 1000000000LL + (long long)tv->tv_usec * 1000LL : -1;
    return do_select(nfds, r, w, e, t);
}

int pselect(int nfds, fd_set *r, fd_set *w, fd_set *e, const struct timespec *ts,
            const sigset_t *mask) {
    LOAD(pselect);
    if (!enabled)
        return real_pselect(nfds, r, w, e, ts, mask);
    long long t = ts ? (long long)ts->tv_sec * 1000000000LL + ts->tv_nsec : -1;
    return do_select(nfds, r, w, e, t);
}

struct poll_ctx {
    struct pollfd *fds;
    nfds_t n;
};

static int probe_poll(void *ctx) {
    struct poll_ctx *p = ctx;
    struct timespec z = {0, 0};
    long k = RAW(SYS_ppoll, p->fds, p->n, &z, NULL, 8);
    return k != 0;
}

static int do_poll(struct pollfd *fds, nfds_t n, long long timeout_ns) {
    struct poll_ctx pc = {fds, n};
    char d[256];
    size_t k = 0;
    d[0] = 0;
    for (nfds_t i = 0; i < n && k + 8 < sizeof d; i++)
        k += snprintf(d + k, sizeof d - k, "%s%d", k ? "," : "", fds[i].fd);
    int blocking = timeout_ns != 0;
    int v = park("pipe", blocking, timeout_ns, probe_poll, &pc, "poll [%s]", d);
    if (v == 'T') {
        for (nfds_t i = 0; i < n; i++)
            fds[i].revents = 0;
        return 0;
    }
    if (v == 'E') {
        errno = EINTR;
        return -1;
    }
    struct timespec z = {0, 0};
    return (int)RAW(SYS_ppoll, fds, n, &z, NULL, 8);
}

int poll(struct pollfd *fds, nfds_t n, int timeout_ms) {
    LOAD(poll);
    if (!enabled)
        return real_poll(fds, n, timeout_ms);
    return do_poll(fds, n, timeout_ms < 0 ? -1 : (long long)timeout_ms * 1000000LL);
}

int ppoll(struct pollfd *fds, nfds_t n, const struct timespec *ts, const sigset_t *mask) {
    LOAD(ppoll);
    if (!enabled)
        return real_ppoll(fds, n, ts, mask);
    return do_poll(fds, n, ts ? (long long)ts->tv_sec * 1000000000LL + ts->tv_nsec : -1);
}

/* ------------------------------------------------------------------ time */

static int never_ready(void *ctx) {
    (void)ctx;
    return 0;
}

int nanosleep(const struct timespec *req, struct timespec *rem) {
    if (!enabled)
        return (int)RAW(SYS_nanosleep, req, rem);
    long long ns = (long long)req->tv_sec * 1000000000LL + req->tv_nsec;
    int v = park("time", 1, ns, never_ready, NULL, "sleep %lld", ns);
    if (v == 'E') {
        if (rem) {
            rem->tv_sec = 0;
            rem->tv_nsec = 0;
        }
        errno = EINTR;
        return -1;
    }
    return 0;
}

int clock_nanosleep(clockid_t clk, int flags, const struct timespec *req, struct timespec *rem) {
    if (!enabled)
        return (int)-RAW(SYS_clock_nanosleep, clk, flags, req, rem);
    long long ns = (long long)req->tv_sec * 1000000000LL + req->tv_nsec;
    if (flags & TIMER_ABSTIME) {
        long long base = clk == CLOCK_REALTIME ? EPOCH_BASE_S * 1000000000LL
                                                : MONO_BASE_S * 1000000000LL;
        ns = ns - (base + now_ns);
        if (ns < 0)
            ns = 0;
    }
    int v = park("time", 1, ns, never_ready, NULL, "sleep %lld", ns);
    if (v == 'E')
        return EINTR;
    (void)rem;
    return 0;
}

int usleep(useconds_t us) {
    if (!enabled) {
        struct timespec ts = {us / 1000000, (long)(us % 1000000) * 1000};
        return (int)RAW(SYS_nanosleep, &ts, NULL);
    }
    int v = park("time", 1, (long long)us * 1000LL, never_ready, NULL, "sleep %lld",
                 (long long)us * 1000LL);
    if (v == 'E') {
        errno = EINTR;
        return -1;
    }
    return 0;
}

unsigned int sleep(unsigned int s) {
    if (!enabled) {
        struct timespec ts = {s, 0};
        RAW(SYS_nanosleep, &ts, NULL);
        return 0;
    }
    park("time", 1, (long long)s * 1000000000LL, never_ready, NULL, "sleep %lld",
         (long long)s * 1000000000LL);
    return 0;
}

static void clock_tick(void) {
    if (++clock_spin >= 64) {
        clock_spin = 0;
        park("time", 0, -1, NULL, NULL, "clockspin");
    }
}

int clock_gettime(clockid_t clk, struct timespec *ts) {
    LOAD(clock_gettime);
    if (!enabled)
        return real_clock_gettime(clk, ts);
    long long base;
    switch (clk) {
    case CLOCK_REALTIME:
    case CLOCK_REALTIME_COARSE:
        base = EPOCH_BASE_S;
        break;
    case CLOCK_MONOTONIC:
    case CLOCK_MONOTONIC_COARSE:
    case CLOCK_MONOTONIC_RAW:
    case CLOCK_BOOTTIME:
        base = MONO_BASE_S;
        break;
    default:
        return real_clock_gettime(clk, ts);
    }
    clock_tick();
    long long t = base * 1000000000LL + now_ns;
    ts->tv_sec = t / 1000000000LL;
    ts->tv_nsec = t % 1000000000LL;
    return 0;
}

int gettimeofday(struct timeval *tv, void *tz) {
    (void)tz;
    if (!enabled)
        return (int)RAW(SYS_gettimeofday, tv, tz);
    clock_tick();
    long long t = EPOCH_BASE_S * 1000000000LL + now_ns;
    if (tv) {
        tv->tv_sec = t / 1000000000LL;
        tv->tv_usec = (t % 1000000000LL) / 1000;
    }
    return 0;
}

time_t time(time_t *out) {
    time_t t;
    if (!enabled) {
        struct timespec ts;
        LOAD(clock_gettime);
        real_clock_gettime(CLOCK_REALTIME, &ts);
        t = ts.tv_sec;
    } else {
        clock_tick();
        t = (time_t)(EPOCH_BASE_S + now_ns / 1000000000LL);
    }
    if (out)
        *out = t;
    return t;
}

int setitimer(__itimer_which_t which, const struct itimerval *nv, struct itimerval *ov) {
    LOAD(setitimer);
    if (!enabled || which != ITIMER_REAL)
        return real_setitimer(which, nv, ov);
    long long val = nv ? (long long)nv->it_value.tv_sec * 1000000000LL +
                             (long long)nv->it_value.tv_usec * 1000LL
                       : 0;
    long long itv = nv ? (long long)nv->it_interval.tv_sec * 1000000000LL +
                             (long long)nv->it_interval.tv_usec * 1000LL
                       : 0;
    sim_sendf("I itimer %lld %lld", val, itv);
    if (ov)
        memset(ov, 0, sizeof *ov);
    return 0;
}

unsigned int alarm(unsigned int s) {
    if (!enabled)
        return (unsigned)RAW(SYS_alarm, s);
    sim_sendf("I itimer %lld 0", (long long)s * 1000000000LL);
    return 0;
}

/* ------------------------------------------------------------ randomness */

ssize_t getrandom(void *buf, size_t n, unsigned flags) {
    if (!enabled)
        return RAW(SYS_getrandom, buf, n, flags);
    prng_fill(buf, n);
    return (ssize_t)n;
}

int getentropy(void *buf, size_t n) {
    if (!enabled)
        return (int)RAW(SYS_getrandom, buf, n, 0) < 0 ? -1 : 0;
    prng_fill(buf, n);
    return 0;
}

long syscall(long nr, ...) {
    LOAD(syscall);
    va_list ap;
    va_start(ap, nr);
    long a = va_arg(ap, long), b = va_arg(ap, long), c = va_arg(ap, long), d = va_arg(ap, long),
         e = va_arg(ap, long), f = va_arg(ap, long);
    va_end(ap);
    if (enabled && nr == SYS_getrandom) {
        prng_fill((void *)a, (size_t)b);
        return b;
    }
    return real_syscall(nr, a, b, c, d, e, f);
}

/* ----------------------------------------------------------- file system */

static int wants_write(int flags) {
    return (flags & O_ACCMODE) != O_RDONLY || (flags & (O_CREAT | O_TRUNC));
}

static void yield_open(int dirfd, const char *path, int flags) {
    char abs[2048];
    if (wants_write(flags) && under_root_at(dirfd, path, abs, sizeof abs))
        park("fsw", 0, -1, NULL, NULL, "open %s %s%s%s", rel(abs),
             (flags & O_ACCMODE) == O_RDONLY ? "r" : "w", (flags & O_CREAT) ? "c" : "",
             (flags & O_TRUNC) ? "t" : "");
}

#define OPEN_BODY(realname, dirfd_expr, pass_dirfd)                                            \
    mode_t mode = 0;                                                                           \
    if (flags & (O_CREAT | __O_TMPFILE)) {                                                     \
        va_list ap;                                                                            \
        va_start(ap, flags);                                                                   \
        mode = va_arg(ap, mode_t);                                                             \
        va_end(ap);                                                                            \
    }                                                                                          \
    LOAD(realname);                                                                            \
    if (enabled)                                                                               \
        yield_open(dirfd_expr, path, flags);                                                   \
    int fd = pass_dirfd;                                                                       \
    if (enabled) {                                                                             \
        note_urandom(fd, path);                                                                \
        if (fd >= 0 && (flags & (O_CREAT | O_TRUNC)) && fd_kind(fd, NULL) == FD_ROOTFILE)      \
            stamp_fd(fd);                                                                      \
    }                                                                                          \
    return fd;

int open(const char *path, int flags, ...) {
    OPEN_BODY(open, AT_FDCWD, real_open(path, flags, mode))
}
int open64(const char *path, int flags, ...) {
    OPEN_BODY(open64, AT_FDCWD, real_open64(path, flags, mode))
}
int openat(int dirfd, const char *path, int flags, ...) {
    OPEN_BODY(openat, dirfd, real_openat(dirfd, path, flags, mode))
}
int openat64(int dirfd, const char *path, int flags, ...) {
    OPEN_BODY(openat64, dirfd, real_openat64(dirfd, path, flags, mode))
}

int creat(const char *path, mode_t mode) { return open(path, O_CREAT | O_WRONLY | O_TRUNC, mode); }
int creat64(const char *path, mode_t mode) {
    return open64(path, O_CREAT | O_WRONLY | O_TRUNC, mode);
}

static void yield_path2(const char *op, int d1, const char *p1, int d2, const char *p2) {
    char a[2048], b[2048];
    int ua = under_root_at(d1, p1, a, sizeof a);
    int ub = p2 ? under_root_at(d2, p2, b, sizeof b) : 0;
    if (!ua && !ub)
        return;
    if (p2)
        park("fsw", 0, -1, NULL, NULL, "%s %s %s", op, rel(a), rel(b));
    else
        park("fsw", 0, -1, NULL, NULL, "%s %s", op, rel(a));
}

int rename(const char *a, const char *b) {
    LOAD(rename);
    if (enabled)
        yield_path2("rename", AT_FDCWD, a, AT_FDCWD, b);
    return real_rename(a, b);
}

int renameat(int da, const char *a, int db, const char *b) {
    LOAD(renameat);
    if (enabled)
        yield_path2("rename", da, a, db, b);
    return real_renameat(da, a, db, b);
}

int renameat2(int da, const char *a, int db, const char *b, unsigned fl) {
    LOAD(renameat2);
    if (enabled)
        yield_path2("rename", da, a, db, b);
    return real_renameat2(da, a, db, b, fl);
}

int unlink(const char *p) {
    LOAD(unlink);
    if (enabled)
        yield_path2("unlink", AT_FDCWD, p, 0, NULL);
    return real_unlink(p);
}

int unlinkat(int d, const char *p, int fl) {
    LOAD(unlinkat);
    if (enabled)
        yield_path2("unlink", d, p, 0, NULL);
    return real_unlinkat(d, p, fl);
}

int mkdir(const char *p, mode_t m) {
    LOAD(mkdir);
    if (enabled)
        yield_path2("mkdir", AT_FDCWD, p, 0, NULL);
    return real_mkdir(p, m);
}

int rmdir(const char *p) {
    LOAD(rmdir);
    if (enabled)
        yield_path2("rmdir", AT_FDCWD, p, 0, NULL);
    return real_rmdir(p);
}

int symlink(const char *t, const char *p) {
    LOAD(symlink);
    if (enabled)
        yield_path2("symlink", AT_FDCWD, p, 0, NULL);
    int r = real_symlink(t, p);
    if (enabled)
        stamp_path(AT_FDCWD, p, 1);
    return r;
}

int link(const char *a, const char *b) {
    LOAD(link);
    if (enabled)
        yield_path2("link", AT_FDCWD, a, AT_FDCWD, b);
    return real_link(a, b);
}

int truncate(const char *p, off_t n) {
    LOAD(truncate);
    if (enabled)
        yield_path2("truncate", AT_FDCWD, p, 0, NULL);
    int r = real_truncate(p, n);
    if (enabled)
        stamp_path(AT_FDCWD, p, 0);
    return r;
}

int truncate64(const char *p, off_t n) {
    LOAD(truncate64);
    if (enabled)
        yield_path2("truncate", AT_FDCWD, p, 0, NULL);
    int r = real_truncate64(p, n);
    if (enabled)
        stamp_path(AT_FDCWD, p, 0);
    return r;
}

int ftruncate(int fd, off_t n) {
    LOAD(ftruncate);
    if (enabled && fd_kind(fd, NULL) == FD_ROOTFILE) {
        yield_filewrite(fd, "ftruncate", (size_t)n);
        int r = real_ftruncate(fd, n);
        stamp_fd(fd);
        return r;
    }
    return real_ftruncate(fd, n);
}

int ftruncate64(int fd, off_t n) {
    LOAD(ftruncate64);
    if (enabled && fd_kind(fd, NULL) == FD_ROOTFILE) {
        yield_filewrite(fd, "ftruncate", (size_t)n);
        int r = real_ftruncate64(fd, n);
        stamp_fd(fd);
        return r;
    }
    return real_ftruncate64(fd, n);
}

int utimes(const char *p, const struct timeval tv[2]) {
    LOAD(utimes);
    if (enabled)
        yield_path2("utimes", AT_FDCWD, p, 0, NULL);
    return real_utimes(p, tv);
}

int utimensat(int d, const char *p, const struct timespec ts[2], int fl) {
    LOAD(utimensat);
    if (enabled && p)
        yield_path2("utimes", d, p, 0, NULL);
    struct timespec fixed[2];
    if (enabled)
        ts = fix_times(ts, fixed);
    return real_utimensat(d, p, ts, fl);
}

int futimens(int fd, const struct timespec ts[2]) {
    LOAD(futimens);
    if (enabled && fd_kind(fd, NULL) == FD_ROOTFILE)
        yield_filewrite(fd, "futimens", 0);
    struct timespec fixed[2];
    if (enabled)
        ts = fix_times(ts, fixed);
    return real_futimens(fd, ts);
}

/* un-yielded calls that may change another process's readiness */

int close(int fd) {
    LOAD(close);
    if (enabled) {
        if (fd == sim_fd) {
            errno = EBADF;
            return -1;
        }
        dirty = 1;
        forget_fd(fd);
    }
    return real_close(fd);
}

int dup2(int a, int b) {
    LOAD(dup2);
    if (enabled) {
        if (b == sim_fd) {
            errno = EBADF;
            return -1;
        }
        dirty = 1;
        forget_fd(b);
        if (is_urandom_fd(a) && a != b)
            note_urandom(b, "/dev/urandom");
    }
    return real_dup2(a, b);
}

int dup3(int a, int b, int fl) {
    LOAD(dup3);
    if (enabled) {
        if (b == sim_fd) {
            errno = EBADF;
            return -1;
        }
        dirty = 1;
        forget_fd(b);
    }
    return real_dup3(a, b, fl);
}
